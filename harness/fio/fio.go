// Package fio provides in-memory, fault-injecting and chunking sinks/sources.
package fio

import (
	"errors"
	"io"
)

// ErrInjected is the error returned by injected faults.
var ErrInjected = errors.New("fio: injected I/O failure")

// Sink is an io.WriteCloser recording everything and failing on demand.
type Sink struct {
	Data          []byte
	Writes        int // Write calls seen
	Closes        int // Close calls seen
	WriteSizes    []int
	FailWrite     map[int]bool // 1-based call indexes of Write that fail
	FailClose     map[int]bool
	Sticky        bool // once failed, every later call fails
	Prefix        int  // bytes accepted by a failing write (0 = none)
	failed        bool
	Fired         int
	FaultAt       []int // len(Data) when each failing write arrived
	FaultAccepted []int // bytes each failing write still accepted
}

func (s *Sink) Write(p []byte) (int, error) {
	s.Writes++
	if len(s.WriteSizes) < 4096 {
		s.WriteSizes = append(s.WriteSizes, len(p))
	}
	if (s.Sticky && s.failed) || s.FailWrite[s.Writes] {
		s.failed = true
		s.Fired++
		n := min(s.Prefix, len(p))
		s.FaultAt = append(s.FaultAt, len(s.Data))
		s.FaultAccepted = append(s.FaultAccepted, n)
		s.Data = append(s.Data, p[:n]...)
		return n, ErrInjected
	}
	s.Data = append(s.Data, p...)
	return len(p), nil
}

func (s *Sink) Close() error {
	s.Closes++
	if (s.Sticky && s.failed) || s.FailClose[s.Closes] {
		s.failed = true
		s.Fired++
		return ErrInjected
	}
	return nil
}

// Source is an io.ReadCloser delivering data in drawn pieces and failing on demand.
type Source struct {
	Data        []byte
	Pos         int
	Sizes       []int // successive maximum piece sizes; the last one repeats; empty = fill the request
	idx         int
	Reads       int
	FailRead    map[int]bool // 1-based call indexes
	Sticky      bool
	WithData    bool // a failing read also returns some bytes (n>0, err)
	EOFWithData bool // deliver the last bytes together with io.EOF
	failed      bool
	Fired       int
	Closes      int
	MinPiece    int // smallest piece actually delivered (non-final)
	Unaligned   int // non-final deliveries whose size is not a multiple of 8
}

func (s *Source) Read(p []byte) (int, error) {
	s.Reads++
	if (s.Sticky && s.failed) || s.FailRead[s.Reads] {
		s.failed = true
		s.Fired++
		if s.WithData && s.Pos < len(s.Data) && len(p) > 0 {
			n := min(len(p), min(3, len(s.Data)-s.Pos))
			copy(p, s.Data[s.Pos:s.Pos+n])
			s.Pos += n
			return n, ErrInjected
		}
		return 0, ErrInjected
	}
	if len(p) == 0 {
		return 0, nil
	}
	if s.Pos >= len(s.Data) {
		return 0, io.EOF
	}
	n := len(p)
	if len(s.Sizes) > 0 {
		k := s.Sizes[min(s.idx, len(s.Sizes)-1)]
		s.idx++
		if k < 1 {
			k = 1
		}
		if k < n {
			n = k
		}
	}
	if n > len(s.Data)-s.Pos {
		n = len(s.Data) - s.Pos
	}
	copy(p, s.Data[s.Pos:s.Pos+n])
	s.Pos += n
	if s.Pos < len(s.Data) {
		if s.MinPiece == 0 || n < s.MinPiece {
			s.MinPiece = n
		}
		if n&7 != 0 {
			s.Unaligned++
		}
	} else if s.EOFWithData {
		return n, io.EOF
	}
	return n, nil
}

func (s *Source) Close() error { s.Closes++; return nil }

// NewSource returns a source that always fills the request.
func NewSource(b []byte) *Source { return &Source{Data: b} }
