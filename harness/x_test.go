package harness
import ("testing"; "pgregory.net/rapid"; kio "github.com/flanglet/kanzi-go/v2/io")
func TestX(t *testing.T){ _ = kio.NewWriter; rapid.Check(t, func(t *rapid.T){ rapid.Int().Draw(t,"x") }) }
