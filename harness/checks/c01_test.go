package checks

import (
	"bytes"
	"encoding/json"
	"fmt"
	"strings"
	"testing"

	"pgregory.net/rapid"

	"verif/harness/gen"
	"verif/harness/kfmt"
	"verif/harness/vrt"
)

// C01Case is one round trip through the stream API.
type C01Case struct {
	Cfg        gen.Config `json:"cfg"`
	Data       gen.Recipe `json:"data"`
	WriteSizes []int      `json:"write_sizes,omitempty"`
	ReadJobs   uint       `json:"read_jobs"`
	ReadBufs   []int      `json:"read_bufs,omitempty"`
	// CtxReader (headerless streams only): the reader is built with NewReaderWithCtx from a context that describes
	// the stream but leaves out the optional "bsVersion" entry, instead of NewHeaderlessReader
	CtxReader bool `json:"ctx_reader,omitempty"`
}

func (c C01Case) render() map[string]any {
	return map[string]any{"cfg": c.Cfg.String(), "data": c.Data.String(), "write_sizes": clipInts(c.WriteSizes, 6),
		"read_jobs": c.ReadJobs, "read_bufs": clipInts(c.ReadBufs, 6)}
}

func clipInts(a []int, n int) []int {
	if len(a) > n {
		return a[:n]
	}
	return a
}

// chainNames returns the chain without NONE fillers (stage indexes of the skip flags).
func chainNames(chain string) []string {
	var out []string
	for _, p := range strings.Split(chain, "+") {
		if u := strings.ToUpper(strings.TrimSpace(p)); u != "NONE" && u != "" {
			out = append(out, u)
		}
	}
	return out
}

// streamLabels parses the produced stream with the independent parser and
// tells which stages were applied.
func streamLabels(stream []byte, cfg gen.Config) (labels []string, nontrivial bool, nblocks int) {
	var st *kfmt.Stream
	var err error
	if cfg.Headerless {
		st, err = kfmt.ParseHeaderless(stream, int(cfg.Checksum))
	} else {
		st, err = kfmt.Parse(stream)
	}
	if err != nil {
		return []string{"kfmt:parse-failed"}, false, 0
	}
	names := chainNames(cfg.Transform)
	if len(names) > 8 {
		names = names[:8]
	}
	seen := map[string]bool{}
	for _, b := range st.Blocks {
		if b.Copy {
			seen["block:copy"] = true
			continue
		}
		for i, nm := range names {
			if b.SkipFlags&(0x80>>uint(i)) == 0 {
				seen["applied:"+nm] = true
				nontrivial = true
			} else {
				seen["declined:"+nm] = true
			}
		}
		if strings.ToUpper(cfg.Entropy) != "NONE" {
			nontrivial = true
		}
	}
	for k := range seen {
		labels = append(labels, k)
	}
	return labels, nontrivial, len(st.Blocks)
}

func jobsClass(j uint) string {
	switch {
	case j == 1:
		return "1"
	case j <= 4:
		return "2-4"
	case j <= 16:
		return "5-16"
	default:
		return "17-64"
	}
}

// runC01 executes the case; it returns "" when the property held.
func runC01(r *vrt.Run, c C01Case) (msg string) {
	data := c.Data.Expand()
	r.Inflight("roundtrip", c)
	defer r.InflightDone()
	stream, err := Compress(data, c.Cfg, c.WriteSizes)
	labels := []string{"kind:" + gen.KindNames[c.Data.Kind%gen.NKinds], "entropy:" + c.Cfg.Entropy, "hint:" + c.Cfg.HintClass,
		"wjobs:" + jobsClass(c.Cfg.Jobs), "rjobs:" + jobsClass(c.ReadJobs), "len:" + sizeClass(len(data))}
	if c.Cfg.Headerless {
		labels = append(labels, "headerless")
	}
	for _, n := range chainNames(c.Cfg.Transform) {
		labels = append(labels, "chain-has:"+n)
	}
	if err != nil {
		r.Eval(vrt.HashOf(c), false, append(labels, "outcome:write-failed")...)
		return "writing failed on a healthy sink: " + err.Error()
	}
	sl, nontrivial, nblocks := streamLabels(stream, c.Cfg)
	labels = append(labels, sl...)
	switch {
	case nblocks <= 1:
		labels = append(labels, fmt.Sprintf("blocks:%d", nblocks))
	case nblocks <= int(c.Cfg.Jobs):
		labels = append(labels, "blocks:one-batch")
	default:
		labels = append(labels, "blocks:multi-batch")
	}
	var out []byte
	if c.CtxReader && c.Cfg.Headerless {
		labels = append(labels, "reader:ctx-without-bsversion")
		out, err = DecompressWith(stream, c.Cfg, c.ReadJobs, c.ReadBufs, map[string]any{"verif.nobsversion": true}, nil)
	} else {
		out, err = Decompress(stream, c.Cfg, c.ReadJobs, c.ReadBufs)
	}
	r.Eval(vrt.HashOf(c), nontrivial, labels...)
	if nontrivial && r.WantSample() {
		m := c.render()
		m["stream_bytes"] = len(stream)
		m["blocks"] = nblocks
		r.Sample(m)
	}
	if err != nil {
		return fmt.Sprintf("reading back failed after %d/%d bytes: %v", len(out), len(data), err)
	}
	if !bytes.Equal(out, data) {
		return fmt.Sprintf("round trip returned different bytes without error: got %d bytes, want %d, first difference at %d", len(out), len(data), firstDiff(out, data))
	}
	return ""
}

func drawC01(t *rapid.T, maxBlock, maxTotal int) C01Case {
	var c C01Case
	c.Cfg = gen.DrawConfig(t, gen.ConfigOpts{MaxBlock: maxBlock})
	bs := int(c.Cfg.BlockSize)
	// length: a few blocks, sometimes more than jobs*blockSize (several batches)
	var maxLen int
	switch rapid.IntRange(0, 9).Draw(t, "lencls") {
	case 0, 1, 2, 3:
		maxLen = 2 * bs
	case 4, 5, 6:
		maxLen = 5 * bs
	default:
		maxLen = (int(c.Cfg.Jobs) + 3) * bs
	}
	if heavy := c.Cfg.Entropy == "TPAQ" || c.Cfg.Entropy == "TPAQX" || c.Cfg.Entropy == "CM"; heavy {
		maxLen = min(maxLen, 128*1024, 3*bs) // every TPAQ block zeroes ~5 MiB of tables: keep such cases to a few blocks
	}
	maxLen = min(maxLen, maxTotal)
	c.Data = gen.DrawRecipe(t, maxLen, "data")
	// one case in three: data of a kind the first (non-NONE) transform of the chain actually applies to, so that
	// the detectors' accept paths are exercised through the stream layer too (block cuts land anywhere in it)
	if names := chainNames(c.Cfg.Transform); len(names) > 0 {
		if aff, ok := c13Affinity[names[0]]; ok && rapid.IntRange(0, 2).Draw(t, "affine") == 0 {
			c.Data.Kind = rapid.SampledFrom(aff).Draw(t, "affkind")
			gen.FixEdge(t, &c.Data, "data")
			if c.Data.Len < 2*bs && maxLen >= 3*bs {
				c.Data.Len += 2 * bs // several blocks: cuts between CR and LF, inside code points, inside runs
			}
		}
	}
	// lengths right at block multiples now and then
	if rapid.IntRange(0, 7).Draw(t, "align") == 0 && c.Data.Len >= bs {
		c.Data.Len = c.Data.Len / bs * bs
		c.Data.Len += rapid.IntRange(-1, 1).Draw(t, "alignδ")
	}
	c.Cfg.Hint, c.Cfg.HintClass = gen.DrawHint(t, c.Data.Len, c.Cfg.BlockSize, "hint")
	if rapid.IntRange(0, 2).Draw(t, "split") == 0 {
		c.WriteSizes = rapid.SliceOfN(rapid.OneOf(rapid.IntRange(0, 17), rapid.IntRange(bs-1, bs+1), rapid.IntRange(0, 3*bs)), 1, 12).Draw(t, "writeSizes")
	}
	c.ReadJobs = gen.DrawJobs(t, 64, "readJobs")
	if c.Cfg.Headerless {
		c.CtxReader = rapid.Bool().Draw(t, "ctxReader")
	}
	if rapid.IntRange(0, 2).Draw(t, "rbufs") == 0 {
		c.ReadBufs = rapid.SliceOfN(rapid.OneOf(rapid.IntRange(0, 9), rapid.IntRange(bs-1, bs+1), rapid.IntRange(1, 4*bs)), 1, 8).Draw(t, "readBufs")
		if c.ReadBufs[len(c.ReadBufs)-1] == 0 {
			c.ReadBufs = append(c.ReadBufs, 1000)
		}
	}
	return c
}

func TestC01(t *testing.T) {
	r := start(t, "C01")
	for _, p := range r.ReplayFiles() {
		ff, err := vrt.LoadFail(p)
		if err != nil {
			t.Fatalf("unreadable replay file %s: %v", p, err)
		}
		var c C01Case
		if err := json.Unmarshal(ff.Case, &c); err != nil {
			t.Fatalf("bad case in %s: %v", p, err)
		}
		if msg := runC01(r, c); msg != "" {
			if slug := c01Known(r, c, msg); slug != "" {
				r.KnownLine(slug + " " + firstLine(msg))
				continue
			}
			r.RecordFailure("roundtrip", c, p, msg)
			t.Fatalf("replay %s: %s", p, msg)
		}
		r.Label("replayed")
	}
	if r.ReplayOnly() {
		return
	}
	prop := func(maxBlock, maxTotal int) func(*rapid.T) {
		return func(t *rapid.T) {
			c := drawC01(t, maxBlock, maxTotal)
			if msg := runC01(r, c); msg != "" {
				if slug := c01Known(r, c, msg); slug != "" {
					r.Excluded(slug)
					return
				}
				r.Violation(t, "roundtrip", c, "%s", msg)
			}
		}
	}
	r.Rapid(t, "small-blocks", 9000, 160000, prop(64*1024, 512*1024))
	r.Rapid(t, "large-blocks", 160, 6000, prop(r.Pick(1<<20, 16<<20), r.Pick(3<<20, 40<<20)))
	// fixed cases at the boundaries of the block-length field (1/2/3/4 bytes: 2^8, 2^16, 2^24) and of the
	// small-block copy path (15/16 bytes): one block of exactly that many bytes, stored and entropy coded
	idx0 := 0
	for _, L := range []int{15, 16, 17, 255, 256, 257, 65535, 65536, 65537, 1<<24 - 1, 1 << 24, 1<<24 + 1} {
		for _, pair := range [][2]string{{"NONE", "NONE"}, {"NONE", "HUFFMAN"}, {"LZ", "NONE"}} {
			idx0++
			if !r.Mine(idx0) {
				continue
			}
			if L >= 1<<24 && pair[1] == "HUFFMAN" && !r.Thorough() {
				continue
			}
			c := C01Case{Cfg: gen.Config{Transform: pair[0], Entropy: pair[1], BlockSize: uint(max(1024, (L+15)&^15)), Jobs: 1, Checksum: 32, HintClass: "absent"},
				Data: gen.Recipe{Kind: gen.KRandom, Len: L, Seed: uint64(L)}, ReadJobs: 1}
			if msg := runC01(r, c); msg != "" {
				if slug := c01Known(r, c, msg); slug != "" {
					r.Excluded(slug)
					continue
				}
				if r.Survey() {
					r.Violation(t, "roundtrip", c, "%s", msg)
					continue
				}
				r.RecordFailure("roundtrip", c, "", msg)
				t.Fatalf("length-field boundary: %s on %s", msg, jsonOf(c))
			}
		}
	}
	// fixed cases around the internal chunk sizes of the entropy coders (one block of chunk + delta bytes; the byte
	// before the chunk boundary is >= 0x40 and the chunks differ in statistics): 16 KiB HUFFMAN/ANS0, 32 KiB RANGE,
	// 4 MiB ANS1/FPAQ
	for _, cc := range []struct {
		en    string
		chunk int
	}{{"HUFFMAN", 16384}, {"ANS0", 16384}, {"RANGE", 32768}, {"ANS1", 4 << 20}, {"FPAQ", 4 << 20}} {
		for _, d := range []int{1, 2, 3, 2049} {
			idx0++
			if !r.Mine(idx0) {
				continue
			}
			L := cc.chunk + d
			c := C01Case{Cfg: gen.Config{Transform: "NONE", Entropy: cc.en, BlockSize: uint((L + 15) &^ 15), Jobs: 1, Checksum: []uint{0, 32}[idx0%2], HintClass: "absent"},
				Data: gen.Recipe{Kind: gen.KMixed, Len: L, Seed: uint64(idx0), P1: 600, P2: gen.KSkewed, Kind2: gen.KText}, ReadJobs: uint(1 + idx0%3)}
			r.Label("fixed:entropy-chunk-boundary")
			if msg := runC01(r, c); msg != "" {
				if slug := c01Known(r, c, msg); slug != "" {
					r.Excluded(slug)
					continue
				}
				if r.Survey() {
					r.Violation(t, "roundtrip", c, "%s", msg)
					continue
				}
				r.RecordFailure("roundtrip", c, "", msg)
				t.Fatalf("entropy chunk boundary: %s on %s", msg, jsonOf(c))
			}
		}
	}
	// fixed cases: text whose vocabulary exceeds the thresholds of the TEXT dictionary (tens of thousands of distinct
	// words in one block), with a fast and a slow entropy codec (they select the two TEXT variants)
	for i, en := range []string{"HUFFMAN", "FPAQ", "ANS1", "FPAQ", "CM", "HUFFMAN"} {
		idx0++
		if !r.Mine(idx0) {
			continue
		}
		// P2 = 100: every word new; 150/180/255: vocabularies of 20000/32000/62000 words used again and again
		c := C01Case{Cfg: gen.Config{Transform: "TEXT", Entropy: en, BlockSize: 1 << 20, Jobs: 2, Checksum: 32, HintClass: "absent"},
			Data: gen.Recipe{Kind: gen.KLatin1, Len: 1<<20 + 300000, Seed: uint64(idx0), P1: 0, P2: []int{100, 150, 180, 255, 160, 200}[i]}, ReadJobs: 2}
		r.Label("fixed:large-vocabulary")
		if msg := runC01(r, c); msg != "" {
			if slug := c01Known(r, c, msg); slug != "" {
				r.Excluded(slug)
				continue
			}
			if r.Survey() {
				r.Violation(t, "roundtrip", c, "%s", msg)
				continue
			}
			r.RecordFailure("roundtrip", c, "", msg)
			t.Fatalf("large vocabulary: %s on %s", msg, jsonOf(c))
		}
	}
	// exhaustive chains of length <= 2 on three fixed data kinds (thorough only)
	if r.Thorough() {
		idx := 0
		for _, a := range gen.TransformNames {
			for _, b := range gen.TransformNames {
				for k, kind := range []int{gen.KText, gen.KDNA, gen.KRuns} {
					idx++
					if !r.Mine(idx) {
						continue
					}
					c := C01Case{Cfg: gen.Config{Transform: a + "+" + b, Entropy: []string{"HUFFMAN", "ANS0", "FPAQ"}[k], BlockSize: 16384, Jobs: 2, Checksum: 32, HintClass: "absent"},
						Data: gen.Recipe{Kind: kind, Len: 40000, Seed: uint64(idx)}, ReadJobs: 3}
					if msg := runC01(r, c); msg != "" {
						if slug := c01Known(r, c, msg); slug != "" {
							r.Excluded(slug)
							continue
						}
						r.RecordFailure("roundtrip", c, "", msg)
						t.Fatalf("chain enumeration: %s on %s", msg, jsonOf(c))
					}
				}
			}
		}
		r.SetExhaustive("all chains of length<=2 x {text,dna,runs}", true)
	}
}

func firstLine(s string) string {
	if i := strings.IndexByte(s, '\n'); i >= 0 {
		s = s[:i]
	}
	if len(s) > 200 {
		s = s[:200]
	}
	return s
}

// c01Known matches a failing case against the signatures of open known findings.
func c01Known(r *vrt.Run, c C01Case, msg string) string {
	if r.KnownOpen("KF-14") && strings.HasPrefix(msg, "reading back failed") && kf14Signature(c) {
		return "KF-14"
	}
	return ""
}

// kf14Signature evaluates the case predicate of known finding KF-14: some block
// has an intermediate transform output (the output of the first k stages, k < n,
// with a later stage applied) that is larger than the buffers the decoder uses
// for inverse-stage outputs, max(B + max(512, B/16), compressed block size).
// The intermediate lengths are measured with the library itself: the data is
// compressed with each proper prefix of the chain and entropy NONE, and the
// pre-entropy length of every block is read with the independent parser.
func kf14Signature(c C01Case) bool {
	names := chainNames(c.Cfg.Transform)
	if len(names) < 2 {
		return false
	}
	if len(names) > 8 {
		names = names[:8]
	}
	data := c.Data.Expand()
	full, err := Compress(data, c.Cfg, c.WriteSizes)
	if err != nil {
		return false
	}
	stFull, err := parseStream(full, c.Cfg)
	if err != nil {
		return false
	}
	B := int(c.Cfg.BlockSize)
	for k := 1; k < len(names); k++ {
		pc := c.Cfg
		pc.Transform = strings.Join(names[:k], "+")
		pc.Entropy = "NONE"
		pc.Headerless = false
		ps, err := Compress(data, pc, nil)
		if err != nil {
			continue
		}
		st, err := kfmt.Parse(ps)
		if err != nil || len(st.Blocks) != len(stFull.Blocks) {
			continue
		}
		for b, blk := range st.Blocks {
			fb := stFull.Blocks[b]
			if fb.Copy {
				continue
			}
			laterApplied := false
			for j := k; j < len(names); j++ {
				if fb.SkipFlags&(0x80>>uint(j)) == 0 {
					laterApplied = true
				}
			}
			decBuf := max(B+max(512, B>>4), (fb.End-fb.LenPrefixEnd+7)/8)
			if laterApplied && int(blk.PreLen) > decBuf {
				return true
			}
		}
	}
	return false
}
