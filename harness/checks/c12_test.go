package checks

import (
	"bytes"
	"encoding/json"
	"fmt"
	"sort"
	"strings"
	"testing"

	"github.com/flanglet/kanzi-go/v2/bitstream"
	"github.com/flanglet/kanzi-go/v2/entropy"
	"pgregory.net/rapid"

	"verif/harness/fio"
	"verif/harness/gen"
	"verif/harness/vrt"
)

// HistRecipe builds a block from a histogram shape and an arrangement.
type HistRecipe struct {
	Alpha   int    `json:"alpha"` // alphabet size 1..256
	Shape   int    `json:"shape"` // 0 flat, 1 geometric, 2 rare+dominant, 3 single, 4 two symbols, 5 zipf, 6 exact geometric counts (ratio from K), 7 Fibonacci counts
	K       int    `json:"k"`     // rare symbols (shape 2)
	M       int    `json:"m"`     // dominant symbols (shape 2)
	Len     int    `json:"len"`
	Arrange int    `json:"arrange"` // 0 shuffled, 1 sorted, 2 clustered
	Seed    uint64 `json:"seed"`
}

var shapeNames = []string{"flat", "geometric", "rare+dominant", "single", "two", "zipf", "exact-geometric", "fibonacci"}

const nShapes = 8

type sm64 struct{ s uint64 }

func (r *sm64) next() uint64 {
	r.s += 0x9E3779B97F4A7C15
	z := r.s
	z = (z ^ (z >> 30)) * 0xBF58476D1CE4E5B9
	z = (z ^ (z >> 27)) * 0x94D049BB133111EB
	return z ^ (z >> 31)
}

func (h HistRecipe) Expand() []byte {
	n := h.Len
	if n <= 0 {
		return []byte{}
	}
	rg := &sm64{s: h.Seed*2654435761 + 12345}
	a := max(1, min(256, h.Alpha))
	if sh := h.Shape % nShapes; sh == 6 || sh == 7 {
		return h.expandExact(rg, a, n)
	}
	w := make([]float64, a)
	switch h.Shape % nShapes {
	case 0:
		for i := range w {
			w[i] = 1
		}
	case 1:
		v := 1.0
		for i := range w {
			w[i] = v
			v *= 0.8
			if v < 1e-9 {
				v = 1e-9
			}
		}
	case 2:
		k := max(0, min(a-1, h.K))
		m := max(1, min(a-k, max(1, h.M)))
		for i := range w {
			w[i] = 0
		}
		for i := 0; i < m; i++ {
			w[i] = 1000.0 / float64(m)
		}
		for i := 0; i < k; i++ {
			w[m+i] = 1.0 / float64(1+h.K%7)
		}
	case 3:
		w = w[:1]
		w[0] = 1
	case 4:
		w = w[:min(2, a)]
		w[0] = 1
		if len(w) > 1 {
			w[1] = float64(1+h.K%50) / 10
		}
	case 5:
		for i := range w {
			w[i] = 1.0 / float64(i+1)
		}
	}
	// symbol values: a permutation of 0..255 picked by the seed
	perm := make([]byte, 256)
	for i := range perm {
		perm[i] = byte(i)
	}
	for i := 255; i > 0; i-- {
		j := int(rg.next() % uint64(i+1))
		perm[i], perm[j] = perm[j], perm[i]
	}
	cum := make([]float64, len(w))
	tot := 0.0
	for i, v := range w {
		tot += v
		cum[i] = tot
	}
	b := make([]byte, n)
	for i := range b {
		x := float64(rg.next()>>11) / float64(1<<53) * tot
		j := sort.SearchFloat64s(cum, x)
		if j >= len(cum) {
			j = len(cum) - 1
		}
		b[i] = perm[j]
	}
	// rare symbols must really occur (shape 2): plant each once
	if h.Shape%nShapes == 2 {
		k := max(0, min(a-1, h.K))
		m := max(1, min(a-k, max(1, h.M)))
		for i := 0; i < k && i < n; i++ {
			b[int(rg.next()%uint64(n))] = perm[m+i]
		}
	}
	switch h.Arrange % 3 {
	case 1:
		sort.Slice(b, func(i, j int) bool { return b[i] < b[j] })
	case 2:
		// clustered: sort inside segments so that consecutive chunks have different statistics
		seg := max(64, n/7)
		for off := 0; off < n; off += seg {
			e := min(n, off+seg)
			s := b[off:e]
			if (off/seg)%2 == 0 {
				sort.Slice(s, func(i, j int) bool { return s[i] < s[j] })
			}
		}
	}
	return b
}

// expandExact builds a block whose histogram has EXACT counts (no sampling): a geometric sequence with ratio
// 0.40..0.89 (shape 6; a ratio near 0.6 with a tail of symbols occurring once makes optimal prefix codes
// longer than any length limit) or the Fibonacci numbers (shape 7, the worst case for code depth), scaled so
// that the counts sum to the requested length. The bytes are then arranged like the sampled shapes.
func (h HistRecipe) expandExact(rg *sm64, a, n int) []byte {
	w := make([]float64, 0, a)
	if h.Shape%nShapes == 6 {
		ratio := 0.40 + float64(h.K%50)/100
		v := 1.0
		for i := 0; i < a; i++ {
			w = append(w, v)
			v *= ratio
		}
	} else {
		f1, f2 := 1.0, 1.0
		for i := 0; i < a && i < 60; i++ {
			w = append(w, f1)
			f1, f2 = f2, f1+f2
		}
		// largest first
		for i, j := 0, len(w)-1; i < j; i, j = i+1, j-1 {
			w[i], w[j] = w[j], w[i]
		}
	}
	tot := 0.0
	for _, v := range w {
		tot += v
	}
	counts := make([]int, len(w))
	used := 0
	for i, v := range w {
		c := int(v / tot * float64(n))
		if c < 1 {
			c = 1
		}
		counts[i] = c
		used += c
	}
	// fit the sum to n: trim the tail of ones, then adjust the largest count
	for used > n && len(counts) > 1 {
		used -= counts[len(counts)-1]
		counts = counts[:len(counts)-1]
	}
	if len(counts) == 1 {
		counts[0] = n
	} else {
		counts[0] += n - used
	}
	perm := make([]byte, 256)
	for i := range perm {
		perm[i] = byte(i)
	}
	if h.M%2 == 0 {
		for i := 255; i > 0; i-- {
			j := int(rg.next() % uint64(i+1))
			perm[i], perm[j] = perm[j], perm[i]
		}
	} else {
		// every other byte value, in order (contiguous alphabets hide rank/value mix-ups)
		for i := range perm {
			perm[i] = byte(2 * i)
		}
	}
	b := make([]byte, 0, n)
	for i, c := range counts {
		for j := 0; j < c && len(b) < n; j++ {
			b = append(b, perm[i])
		}
	}
	for len(b) < n {
		b = append(b, perm[0])
	}
	switch h.Arrange % 3 {
	case 0:
		for i := len(b) - 1; i > 0; i-- {
			j := int(rg.next() % uint64(i+1))
			b[i], b[j] = b[j], b[i]
		}
	case 2:
		// shuffled inside segments
		seg := max(64, n/7)
		for off := 0; off+seg <= n; off += 2 * seg {
			s := b[off : off+seg]
			for i := len(s) - 1; i > 0; i-- {
				j := int(rg.next() % uint64(i+1))
				s[i], s[j] = s[j], s[i]
			}
		}
	}
	return b
}

// C12Case is one entropy coder round trip inside a longer bitstream.
type C12Case struct {
	Codec     string      `json:"codec"`
	Hist      *HistRecipe `json:"hist,omitempty"`
	Data      *gen.Recipe `json:"data,omitempty"`
	Adv       *AdvRecipe  `json:"adv,omitempty"` // CM/TPAQ/TPAQX only: block built against the codec's own predictor
	BlockSize uint        `json:"block_size"` // ctx blockSize (TPAQ sizing)
	Prefix    int         `json:"prefix"`     // whole bytes written before the block
	PadBits   int         `json:"pad_bits"`   // bits written after the sentinel
	BufSize   uint        `json:"buf_size"`   // bitstream buffer size
}

// AdvRecipe describes a block that is adversarial for a bit-wise coder: the harness runs the codec's own
// predictor (same context as the encoder) and emits, bit after bit, the value the predictor finds LESS likely,
// except for Noise per mille of the bits, which are drawn from the seed. Such blocks cost more than one bit per
// bit and exercise the coders' output-size assumptions.
type AdvRecipe struct {
	Len   int    `json:"len"`
	Noise int    `json:"noise"`
	Seed  uint64 `json:"seed"`
}

func c12Ctx(codec string, blockSize uint, n int) (map[string]any, uint) {
	bsz := blockSize
	if bsz < 1024 {
		bsz = uint(max(1024, (n+15)&^15))
	}
	return map[string]any{"entropy": codec, "blockSize": bsz, "size": uint(n), "bsVersion": uint(6), "jobs": uint(1), "transform": "NONE"}, bsz
}

func (a AdvRecipe) expand(codec string, blockSize uint) []byte {
	ctx, _ := c12Ctx(codec, blockSize, a.Len)
	var p interface {
		Get() int
		Update(bit byte)
	}
	switch codec {
	case "CM":
		pp, err := entropy.NewCMPredictor(&ctx)
		if err != nil {
			return nil
		}
		p = pp
	case "TPAQ", "TPAQX":
		pp, err := entropy.NewTPAQPredictor(&ctx)
		if err != nil {
			return nil
		}
		p = pp
	default:
		return make([]byte, a.Len)
	}
	rg := &sm64{s: a.Seed*0x9E3779B97F4A7C15 + 99}
	b := make([]byte, a.Len)
	for i := range b {
		var v byte
		for k := 7; k >= 0; k-- {
			bit := byte(0)
			if p.Get() < 2048 {
				bit = 1 // the predictor thinks a one is unlikely
			}
			if a.Noise > 0 && int(rg.next()%1000) < a.Noise {
				bit = byte(rg.next() & 1)
			}
			p.Update(bit)
			v |= bit << uint(k)
		}
		b[i] = v
	}
	return b
}

func (c C12Case) bytes() []byte {
	if c.Adv != nil {
		return c.Adv.expand(c.Codec, c.BlockSize)
	}
	if c.Hist != nil {
		return c.Hist.Expand()
	}
	if c.Data != nil {
		return c.Data.Expand()
	}
	return nil
}

const c12Sentinel = uint64(0xDEADBEEFCAFEF00D)

type c12Out struct {
	msg        string
	known      string
	written    uint64
	nontrivial bool
}

var rawThreshold = map[string]int{"NONE": 1 << 30, "HUFFMAN": 0, "ANS0": 32, "ANS1": 32, "RANGE": 0, "FPAQ": 0, "CM": 0, "TPAQ": 0, "TPAQX": 0}

func runC12(r *vrt.Run, c C12Case) (o c12Out) {
	data := c.bytes()
	ty, err := entropy.GetType(c.Codec)
	if err != nil {
		o.msg = err.Error()
		return
	}
	bufSize := c.BufSize
	if bufSize < 1024 {
		bufSize = 16384
	}
	_, bsz := c12Ctx(c.Codec, c.BlockSize, len(data))
	sink := &fio.Sink{}
	var wbits uint64
	err = guard(func() error {
		obs, e := bitstream.NewDefaultOutputBitStream(sink, bufSize)
		if e != nil {
			return e
		}
		for i := 0; i < c.Prefix; i++ {
			obs.WriteBits(uint64(0xA0+i), 8)
		}
		ctx := map[string]any{"entropy": c.Codec, "blockSize": bsz, "size": uint(len(data)), "bsVersion": uint(6), "jobs": uint(1), "transform": "NONE"}
		ee, e := entropy.NewEntropyEncoder(obs, ctx, ty)
		if e != nil {
			return fmt.Errorf("encoder ctor: %w", e)
		}
		n, e := ee.Write(data)
		if e != nil {
			return fmt.Errorf("encode: %w", e)
		}
		if n != len(data) {
			return fmt.Errorf("encode: consumed %d of %d bytes without error", n, len(data))
		}
		ee.Dispose()
		wbits = obs.Written()
		obs.WriteBits(c12Sentinel, 64)
		if c.PadBits > 0 {
			obs.WriteBits(uint64(1)<<uint(c.PadBits)-1, uint(c.PadBits))
		}
		return obs.Close()
	})
	if err != nil {
		o.msg = "encoding failed: " + err.Error()
		if isPanic(err) && strings.Contains(o.msg, "BinaryEntropyEncoder).flush") && strings.Contains(o.msg, "index out of range") {
			o.known = "KF-30" // the bit-wise encoder's chunk buffer (length + length/8) is too small for this block
		}
		return
	}
	o.written = wbits
	out := make([]byte, len(data))
	var rbits, sent, pad uint64
	err = guard(func() error {
		ibs, e := bitstream.NewDefaultInputBitStream(fio.NewSource(sink.Data), bufSize)
		if e != nil {
			return e
		}
		for i := 0; i < c.Prefix; i++ {
			if v := ibs.ReadBits(8); v != uint64(0xA0+i) {
				return fmt.Errorf("prefix byte %d read back as %#x", i, v)
			}
		}
		ctx := map[string]any{"entropy": c.Codec, "blockSize": bsz, "size": uint(len(data)), "bsVersion": uint(6), "jobs": uint(1), "transform": "NONE"}
		ed, e := entropy.NewEntropyDecoder(ibs, ctx, ty)
		if e != nil {
			return fmt.Errorf("decoder ctor: %w", e)
		}
		n, e := ed.Read(out)
		if e != nil {
			return fmt.Errorf("decode: %w", e)
		}
		if n != len(out) {
			return fmt.Errorf("decode: produced %d of %d bytes without error", n, len(out))
		}
		ed.Dispose()
		rbits = ibs.Read()
		if rbits == wbits {
			sent = ibs.ReadBits(64)
			if c.PadBits > 0 {
				pad = ibs.ReadBits(uint(c.PadBits))
			}
		}
		return nil
	})
	distinct := 0
	var seen [256]bool
	for _, v := range data {
		if !seen[v] {
			seen[v] = true
			distinct++
		}
	}
	o.nontrivial = len(data) > rawThreshold[c.Codec] && distinct >= 2 && c.Codec != "NONE"
	if c.Codec == "NONE" {
		o.nontrivial = len(data) > 0
	}
	if err != nil {
		o.msg = "decoding the encoder output failed: " + err.Error()
		return
	}
	if !bytes.Equal(out, data) {
		o.msg = fmt.Sprintf("decoded block differs from the input at offset %d (len %d)", firstDiff(out, data), len(data))
		return
	}
	if rbits != wbits {
		o.msg = fmt.Sprintf("decoder consumed %d bits, encoder wrote %d (block of %d bytes, %d prefix bytes)", rbits, wbits, len(data), c.Prefix)
		if len(data) == 0 && wbits-uint64(8*c.Prefix) == 56 && rbits == uint64(8*c.Prefix) {
			switch c.Codec {
			case "FPAQ", "CM", "TPAQ", "TPAQX":
				o.known = "KF-07"
			}
		}
		return
	}
	if sent != c12Sentinel {
		o.msg = fmt.Sprintf("data following the block read back as %#x, want %#x", sent, c12Sentinel)
		return
	}
	if c.PadBits > 0 && pad != uint64(1)<<uint(c.PadBits)-1 {
		o.msg = "padding bits after the sentinel read back wrong"
	}
	return
}

func c12Eval(r *vrt.Run, c C12Case) c12Out {
	o := runC12(r, c)
	n := 0
	shape := "datakind"
	if c.Adv != nil {
		n = c.Adv.Len
		shape = "shape:adversarial-for-the-predictor"
	} else if c.Hist != nil {
		n = c.Hist.Len
		shape = "shape:" + shapeNames[c.Hist.Shape%nShapes]
	} else if c.Data != nil {
		n = c.Data.Len
		shape = "kind:" + gen.KindNames[c.Data.Kind%gen.NKinds]
	}
	r.Eval(vrt.HashOf(c), o.nontrivial, "codec:"+c.Codec, shape, "len:"+sizeClass(n), fmt.Sprintf("prefix:%d", c.Prefix), c.Codec+":len:"+sizeClass(n))
	if o.nontrivial && r.WantSample() {
		m := map[string]any{"codec": c.Codec, "prefix_bytes": c.Prefix, "pad_bits": c.PadBits, "block_size": c.BlockSize, "bits_written": o.written}
		if c.Adv != nil {
			m["adversarial"] = *c.Adv
		} else if c.Hist != nil {
			m["hist"] = *c.Hist
		} else if c.Data != nil {
			m["data"] = c.Data.String()
		}
		r.Sample(m)
	}
	return o
}

var c12Chunk = map[string]int{"HUFFMAN": 16384, "ANS0": 16384, "RANGE": 32768, "ANS1": 4 << 20, "FPAQ": 4 << 20}

func drawC12(t *rapid.T, maxLen int, heavy bool) C12Case {
	var c C12Case
	if heavy {
		c.Codec = rapid.SampledFrom(gen.EntropyNames).Draw(t, "codec")
	} else {
		c.Codec = gen.DrawEntropy(t, false, "codec")
	}
	ml := maxLen
	if c.Codec == "TPAQ" || c.Codec == "TPAQX" || c.Codec == "CM" {
		ml = min(ml, 20000)
	}
	var n int
	switch rapid.IntRange(0, 11).Draw(t, "lencls") {
	case 0:
		n = rapid.IntRange(0, 2).Draw(t, "len")
	case 1, 2:
		n = rapid.IntRange(0, 70).Draw(t, "len")
	case 3:
		// 4096: RANGE lowers its log range below; 2048 = Huffman's renormalisation scale (chunk size / 8)
		n = rapid.SampledFrom([]int{4096, 4096, 2048, 1024, 512, 256}).Draw(t, "lenbase") + rapid.IntRange(-3, 3).Draw(t, "len")
	case 4, 5:
		ch := c12Chunk[c.Codec]
		if ch == 0 || ch > ml {
			ch = 16384
		}
		q := rapid.IntRange(1, max(1, min(3, ml/ch))).Draw(t, "q")
		n = q*ch + rapid.SampledFrom([]int{-1, 0, 1, 2, 3, 31, 32, 33, 255, 256, 300, 2047, 2048, 2049, 4095, 4096}).Draw(t, "r")
	default:
		n = rapid.IntRange(0, ml).Draw(t, "len")
	}
	n = max(0, min(n, ml))
	if rapid.IntRange(0, 3).Draw(t, "src") == 0 {
		d := gen.DrawRecipe(t, 1, "data")
		d.Len = n
		c.Data = &d
	} else {
		h := HistRecipe{Alpha: rapid.IntRange(1, 256).Draw(t, "alpha"), Shape: rapid.IntRange(0, nShapes-1).Draw(t, "shape"),
			K: rapid.IntRange(0, 255).Draw(t, "k"), M: rapid.IntRange(1, 4).Draw(t, "m"), Len: n,
			Arrange: rapid.IntRange(0, 2).Draw(t, "arrange"), Seed: rapid.Uint64Range(0, 1<<32).Draw(t, "seed")}
		c.Hist = &h
	}
	if (c.Codec == "TPAQ" || c.Codec == "TPAQX" || c.Codec == "CM") && rapid.IntRange(0, 2).Draw(t, "adv") == 0 {
		c.Hist, c.Data = nil, nil
		c.Adv = &AdvRecipe{Len: min(n, 6000), Noise: rapid.SampledFrom([]int{0, 0, 5, 50, 300}).Draw(t, "noise"), Seed: rapid.Uint64Range(0, 1<<20).Draw(t, "advseed")}
		n = c.Adv.Len
	}
	c.BlockSize = uint(rapid.SampledFrom([]int{0, 1024, 65536, 1 << 20, 4 << 20}).Draw(t, "blockSize"))
	if int(c.BlockSize) < n {
		c.BlockSize = 0
	}
	if (c.Codec == "TPAQ" || c.Codec == "TPAQX") && c.BlockSize > uint(tpaqMaxBlock) {
		c.BlockSize = uint(tpaqMaxBlock) // state tables of 64 MiB+ per instance are not affordable at this rate
	}
	c.Prefix = rapid.IntRange(0, 7).Draw(t, "prefix")
	c.PadBits = rapid.IntRange(0, 7).Draw(t, "pad")
	c.BufSize = uint(rapid.SampledFrom([]int{1024, 16384, 65536}).Draw(t, "bufSize"))
	return c
}

// largest ctx blockSize given to TPAQ/TPAQX (quick: 64 KiB, thorough: 1 MiB)
var tpaqMaxBlock = 65536

func TestC12(t *testing.T) {
	r := start(t, "C12")
	tpaqMaxBlock = r.Pick(65536, 1<<20)
	for _, p := range r.ReplayFiles() {
		ff, err := vrt.LoadFail(p)
		if err != nil {
			t.Fatalf("unreadable replay file %s: %v", p, err)
		}
		var c C12Case
		if err := json.Unmarshal(ff.Case, &c); err != nil {
			t.Fatalf("bad case in %s: %v", p, err)
		}
		if o := c12Eval(r, c); o.msg != "" {
			if o.known != "" && r.KnownOpen(o.known) {
				r.KnownLine(o.known + " " + c.Codec + ": " + firstLine(o.msg))
				continue
			}
			r.RecordFailure("entropy", c, p, o.msg)
			t.Fatalf("replay %s: %s", p, o.msg)
		}
		r.Label("replayed")
	}
	if r.ReplayOnly() {
		return
	}
	prop := func(maxLen int, heavy bool) func(*rapid.T) {
		return func(t *rapid.T) {
			c := drawC12(t, maxLen, heavy)
			if o := c12Eval(r, c); o.msg != "" {
				if o.known != "" && r.KnownOpen(o.known) {
					r.Excluded(o.known)
					return
				}
				r.Violation(t, "entropy", c, "%s", o.msg)
			}
		}
	}
	r.Rapid(t, "small", 24000, 800000, prop(100000, false))
	r.Rapid(t, "heavy-codecs", 300, 12000, prop(20000, true))
	// Directed family: exact geometric / Fibonacci histograms (the shapes that push optimal prefix codes beyond the
	// length limit and stress the frequency tables) at the block lengths where a chunk's total equals a scale used
	// by the coders (2048 = Huffman renormalisation, 4096 = ANS/RANGE log range 12, 256/512 = small-chunk log ranges),
	// alone and as the last chunk behind a full 16 KiB chunk.
	{
		didx := 0
		for _, codec := range []string{"HUFFMAN", "ANS0", "RANGE", "ANS1"} {
			for _, ln := range []int{2048, 4096, 16384 + 2048, 512, 256, 2047, 4097} {
				for _, alpha := range []int{12, 20, 30, 48, 256} {
					for k := 0; k < 50; k++ {
						didx++
						if !r.Mine(didx) || r.Failed() {
							continue
						}
						shape := 6
						if k >= 46 {
							shape = 7 // Fibonacci counts for the last few
						}
						c := C12Case{Codec: codec, Hist: &HistRecipe{Alpha: alpha, Shape: shape, K: k, M: didx % 2, Len: ln, Arrange: didx % 3, Seed: uint64(didx)},
							Prefix: didx % 8, PadBits: didx % 7, BufSize: 16384}
						r.Label("directed:exact-histograms")
						if o := c12Eval(r, c); o.msg != "" {
							if r.Survey() {
								r.Violation(t, "entropy", c, "%s", o.msg)
								continue
							}
							r.RecordFailure("entropy", c, "", o.msg)
							t.Fatalf("exact-histogram family: %s on %s", o.msg, jsonOf(c))
						}
					}
				}
			}
		}
		r.SetExhaustive("exact geometric/Fibonacci histograms x scale-sized blocks x {HUFFMAN, ANS0, RANGE, ANS1}", true)
	}
	// Sweep: blocks built against the predictor of each bit-wise coder, every length 1..N (no noise, and 2 % noise)
	{
		aidx := 0
		top := r.Pick(260, 1600)
		for _, codec := range []string{"TPAQ", "CM", "TPAQX"} {
			for ln := 1; ln <= top; ln++ {
				for _, noise := range []int{0, 20} {
					aidx++
					if !r.Mine(aidx) || r.Failed() {
						continue
					}
					c := C12Case{Codec: codec, Adv: &AdvRecipe{Len: ln, Noise: noise, Seed: uint64(ln)}, BlockSize: []uint{0, 65536}[aidx%2], Prefix: aidx % 8, PadBits: aidx % 7, BufSize: 16384}
					r.Label("directed:adversarial-sweep")
					if o := c12Eval(r, c); o.msg != "" {
						if o.known != "" && r.KnownOpen(o.known) {
							r.Excluded(o.known)
							continue
						}
						if r.Survey() {
							r.Violation(t, "entropy", c, "%s", o.msg)
							continue
						}
						r.RecordFailure("entropy", c, "", o.msg)
						t.Fatalf("adversarial sweep: %s on %s", o.msg, jsonOf(c))
					}
				}
			}
		}
		r.SetExhaustive(fmt.Sprintf("adversarial blocks of every length 1..%d x {TPAQ, CM, TPAQX}", top), true)
	}
	// fixed cases across the 4 MiB internal chunk boundary of ANS1 and FPAQ (cheap enough for every run)
	idx := 0
	for _, codec := range []string{"FPAQ", "ANS1"} {
		for _, extra := range []int{1, 2, 3, 4097} {
			for _, shape := range []int{0, 5} {
				idx++
				if !r.Mine(idx) {
					continue
				}
				c := C12Case{Codec: codec, Hist: &HistRecipe{Alpha: 256, Shape: shape, Len: 4<<20 + extra, Arrange: 0, Seed: uint64(idx)}, BlockSize: 8 << 20, Prefix: idx % 8, PadBits: idx % 7, BufSize: 65536}
				if o := c12Eval(r, c); o.msg != "" {
					if r.Survey() {
						r.Violation(t, "entropy", c, "%s", o.msg)
						continue
					}
					r.RecordFailure("entropy", c, "", o.msg)
					t.Fatalf("chunk-boundary case: %s on %s", o.msg, jsonOf(c))
				}
			}
		}
	}
	if r.Thorough() {
		// chunk boundaries of the 4 MiB chunk codecs and multi-MiB blocks of the bit-wise coders
		r.Rapid(t, "large", 0, 160, func(t *rapid.T) {
			c := drawC12(t, 100, false)
			c.Codec = rapid.SampledFrom([]string{"ANS1", "FPAQ", "ANS1", "FPAQ", "CM", "HUFFMAN", "RANGE", "ANS0"}).Draw(t, "bigcodec")
			n := (4 << 20) + rapid.SampledFrom([]int{-1, 0, 1, 33, 5000, 1 << 20}).Draw(t, "r")
			if c.Codec == "CM" {
				n = 1 << 20
			}
			if c.Hist != nil {
				c.Hist.Len = n
			} else {
				c.Data.Len = n
			}
			c.BlockSize = 8 << 20
			if o := c12Eval(r, c); o.msg != "" {
				r.Violation(t, "entropy", c, "%s", o.msg)
			}
		})
	}
}
