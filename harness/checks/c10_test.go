package checks

import (
	"bytes"
	"crypto/sha256"
	"encoding/hex"
	"encoding/json"
	"fmt"
	"os"
	"path/filepath"
	"sort"
	"strings"
	"testing"

	"pgregory.net/rapid"

	refio "verif/harness/ref/kanzi/io"

	"verif/harness/fio"
	"verif/harness/gen"
	"verif/harness/kfmt"
	"verif/harness/vrt"
)

// refCompress writes data with the PINNED reference encoder (harness/ref/kanzi, never rebuilt from /repo).
func refCompress(data []byte, cfg gen.Config) ([]byte, error) {
	sink := &fio.Sink{}
	err := guard(func() error {
		w, e := refio.NewWriter(sink, cfg.Transform, cfg.Entropy, cfg.BlockSize, cfg.Jobs, cfg.Checksum, cfg.Hint, cfg.Headerless)
		if e != nil {
			return e
		}
		if n, e := w.Write(data); e != nil || n != len(data) {
			return fmt.Errorf("write: %d %v", n, e)
		}
		return w.Close()
	})
	return sink.Data, err
}

// refDecompress decodes with the pinned reference decoder.
func refDecompress(stream []byte, cfg gen.Config, jobs uint) (out []byte, err error) {
	err = guard(func() error {
		var rd *refio.Reader
		var e error
		if cfg.Headerless {
			rd, e = refio.NewHeaderlessReader(fio.NewSource(stream), jobs, cfg.Transform, cfg.Entropy, cfg.BlockSize, cfg.Checksum, cfg.Hint, 6)
		} else {
			rd, e = refio.NewReader(fio.NewSource(stream), jobs)
		}
		if e != nil {
			return e
		}
		defer rd.Close()
		var e2 error
		out, e2 = Drain(rd, nil)
		return e2
	})
	return
}

// C10Case: (input, configuration) compared across the two code histories.
type C10Case struct {
	Cfg      gen.Config `json:"cfg"`
	Data     gen.Recipe `json:"data"`
	ReadJobs uint       `json:"read_jobs"`
	Golden   string     `json:"golden,omitempty"` // file name in /verif/golden (corpus entry)
}

type c10Out struct {
	msg        string
	nontrivial bool
	status     string
}

func runC10(r *vrt.Run, c C10Case) (o c10Out) {
	data := c.Data.Expand()
	r.Inflight("format", c)
	defer r.InflightDone()
	stream, err := refCompress(data, c.Cfg)
	if err != nil {
		o.status = "ref_failed:encode"
		return
	}
	want, err := refDecompress(stream, c.Cfg, 1)
	if err != nil || !bytes.Equal(want, data) {
		// the reference itself does not round-trip this pair (its own known defects): outside the property's domain
		o.status = "ref_failed:roundtrip"
		return
	}
	_, o.nontrivial, _ = streamLabels(stream, c.Cfg)
	got, err := Decompress(stream, c.Cfg, max(c.ReadJobs, 1), nil)
	if err != nil {
		o.msg = fmt.Sprintf("a stream written by the reference encoder (%s, %d bytes in) no longer decodes: error after %d/%d bytes: %v", c.Cfg.String(), len(data), len(got), len(want), err)
		return
	}
	if !bytes.Equal(got, want) {
		o.msg = fmt.Sprintf("a stream written by the reference encoder (%s) decodes to different bytes than with the reference decoder: %d vs %d bytes, first difference at %d", c.Cfg.String(), len(got), len(want), firstDiff(got, want))
		return
	}
	o.status = "agree"
	return
}

func c10Eval(r *vrt.Run, c C10Case) c10Out {
	o := runC10(r, c)
	labels := []string{o.status, "entropy:" + c.Cfg.Entropy, fmt.Sprintf("ck:%d", c.Cfg.Checksum)}
	if o.nontrivial {
		for _, n := range chainNames(c.Cfg.Transform) {
			labels = append(labels, "chain-has:"+n)
		}
	}
	r.Eval(vrt.HashOf(c), o.nontrivial, labels...)
	if o.nontrivial && r.WantSample() {
		r.Sample(map[string]any{"cfg": c.Cfg.String(), "data": c.Data.String(), "read_jobs": c.ReadJobs, "status": o.status})
	}
	return o
}

// GoldenEntry describes one archived reference stream.
type GoldenEntry struct {
	File   string     `json:"file"`
	Cfg    gen.Config `json:"cfg"`
	Data   gen.Recipe `json:"data"`
	Len    int        `json:"len"`
	SHA256 string     `json:"sha256"`
	Blocks int        `json:"blocks"`
}

func goldenDir(r *vrt.Run) string { return filepath.Join(r.Root, "golden") }

func goldenPlan() []GoldenEntry {
	var es []GoldenEntry
	add := func(tr, en string, kind int, n int, bs uint, ck uint, hl bool) {
		e := GoldenEntry{Cfg: gen.Config{Transform: tr, Entropy: en, BlockSize: bs, Jobs: 1, Checksum: ck, Headerless: hl, HintClass: "absent"},
			Data: gen.Recipe{Kind: kind, Len: n, Seed: uint64(len(es) + 1), P1: 1 + len(es)%7, P2: len(es) % 5}}
		es = append(es, e)
	}
	aff := map[string]int{"TEXT": gen.KText, "UTF": gen.KUTF8, "EXE": gen.KExeX86, "MM": gen.KWav, "DNA": gen.KDNA, "PACK": gen.KSmallAlpha, "RLT": gen.KRuns, "ZRLT": gen.KRuns,
		"LZP": gen.KRepeat, "ROLZ": gen.KText, "ROLZX": gen.KText, "SRT": gen.KText, "RANK": gen.KText, "MTFT": gen.KRuns, "BWT": gen.KText, "BWTS": gen.KText, "LZ": gen.KRepeat, "LZX": gen.KText, "NONE": gen.KRandom}
	for i, tr := range gen.TransformNames {
		add(tr, "NONE", aff[tr], 9000, 4096, []uint{0, 32, 64}[i%3], false)
		add(tr, "HUFFMAN", aff[tr], 20000, 8192, []uint{32, 64, 0}[i%3], false)
		add(tr, "ANS0", gen.KMixed, 6000, 2048, 0, i%4 == 0)
	}
	for i, en := range gen.EntropyNames {
		add("NONE", en, gen.KText, 40000, 65536, []uint{0, 32, 64}[i%3], false)
		add("LZ", en, gen.KRuns, 5000, 1024, []uint{64, 0, 32}[i%3], false)
		add("BWT+RANK+ZRLT", en, gen.KXML, 12000, 16384, 32, false)
		add("NONE", en, gen.KSkewed, 3000, 4096, 0, true)
	}
	levels := [][2]string{{"NONE", "NONE"}, {"LZX", "NONE"}, {"DNA+LZ", "HUFFMAN"}, {"TEXT+UTF+PACK+MM+LZX", "HUFFMAN"}, {"TEXT+UTF+EXE+PACK+MM+ROLZ", "NONE"},
		{"TEXT+UTF+BWT+RANK+ZRLT", "ANS0"}, {"TEXT+UTF+BWT+SRT+ZRLT", "FPAQ"}, {"LZP+TEXT+UTF+BWT+LZP", "CM"}, {"EXE+RLT+TEXT+UTF+DNA", "TPAQ"}, {"EXE+RLT+TEXT+UTF+DNA", "TPAQX"}}
	for _, lv := range levels {
		for _, kind := range []int{gen.KText, gen.KUTF8, gen.KDNA, gen.KExeX86, gen.KWav, gen.KRandom} {
			n := 30000
			if strings.HasPrefix(lv[1], "TPAQ") || lv[1] == "CM" {
				n = 9000
			}
			add(lv[0], lv[1], kind, n, 16384, 32, false)
		}
	}
	// sizes crossing chunk thresholds of the entropy codecs and small-block / copy-block paths
	for _, n := range []int{0, 1, 15, 16, 33, 255, 256, 1023, 4095, 4097, 16383, 16385, 32769, 70000} {
		add("NONE", "ANS0", gen.KText, n, 65536*2, 32, false)
		add("NONE", "RANGE", gen.KSkewed, n, 65536*2, 0, false)
	}
	add("LZ", "NONE", gen.KRepeat, 400000, 524288, 32, false)
	add("LZX", "HUFFMAN", gen.KText, 300000, 524288, 64, false)
	// format limits: the extreme tokens each run / match / symbol coder can emit (appended after the
	// entries above so that the earlier file numbers stay what they were)
	lim := func(tr, en string, p1, p2, n int, bs uint) {
		es = append(es, GoldenEntry{Cfg: gen.Config{Transform: tr, Entropy: en, BlockSize: bs, Jobs: 1, Checksum: 32, HintClass: "absent"},
			Data: gen.Recipe{Kind: gen.KLimits, Len: n, Seed: uint64(len(es) + 1), P1: p1, P2: p2}})
	}
	for _, p2 := range []int{0, 1, 128, 255} {
		lim("RLT", "NONE", 0, p2, 150000, 262144)    // one run of 65538 + 31*p2 bytes (up to 73443: a single maximal run token)
		lim("RLT", "HUFFMAN", 1, p2, 400000, 524288) // a run of 73474 + 1000*p2 bytes (split into several tokens)
		lim("ZRLT", "NONE", 2, p2, 200000, 262144)   // zero run beyond 2^16
	}
	for _, tr := range []string{"LZ", "LZX", "LZP", "ROLZ", "ROLZX", "BWT", "BWTS", "RLT+LZ"} {
		lim(tr, "NONE", 3, 7, 200000, 262144) // one short period repeated to the end: matches of maximal length
		lim(tr, "ANS0", 4, 3, 300000, 524288) // far matches (distance above 64 KiB)
	}
	for _, tr := range []string{"MTFT", "RANK", "SRT", "PACK", "ZRLT", "NONE"} {
		lim(tr, "HUFFMAN", 5, 0, 70000, 131072) // every byte value with a strongly skewed histogram
		lim(tr, "RANGE", 5, 1, 70000, 131072)
	}
	add("TEXT", "NONE", gen.KText, 600000, 1<<20, 32, false) // dictionary growth well beyond the static part
	add("TEXT", "ANS1", gen.KText, 100000, 131072, 0, false) // TEXT flavour selected by the entropy codec name
	add("TEXT", "CM", gen.KXML, 60000, 65536, 0, false)
	add("RLT", "ANS1", gen.KRuns, 100000, 131072, 0, false) // RLT escape selection depends on the entropy codec name
	add("RLT", "FPAQ", gen.KRuns, 100000, 131072, 0, false)
	add("UTF", "NONE", gen.KUTF8, 300000, 524288, 32, false)
	add("UTF", "HUFFMAN", gen.KUTF8, 60000, 65536, 0, false)
	// last entropy chunk of exactly the raw-copy thresholds and around them, per codec
	for _, en := range []string{"HUFFMAN", "ANS0", "ANS1", "RANGE", "FPAQ", "CM"} {
		for _, n := range []int{31, 32, 33, 16384 + 31, 16384 + 32, 16384 + 33, 32768 + 32} {
			add("NONE", en, gen.KSkewed, n, 65536, 64, false)
		}
	}
	// TPAQ/TPAQX size the predictor's tables from the declared block size (1/4/16/64 MiB tiers) and from the
	// actual block length (1/4/8/16/32 MiB tiers): one block inside the lower tiers of each, and small blocks under
	// large declared block sizes (cheap to decode: the big tables are allocated but hardly touched)
	for _, en := range []string{"TPAQ", "TPAQX"} {
		for _, n := range []int{1<<20 + 4096, 2<<20 + 4096, 4<<20 + 4096} {
			add("NONE", en, gen.KText, n, uint(n+15)&^15, 32, false)
		}
		for _, bs := range []uint{1 << 20, 4 << 20, 16 << 20, 64 << 20} {
			add("NONE", en, gen.KXML, 50000, bs, 0, false)
		}
	}
	add("NONE", "TPAQ", gen.KText, 8<<20+4096, 8<<20+4096, 0, false)
	// one block beyond the 4 MiB internal chunk of FPAQ and ANS1 (the second chunk starts from fresh statistics)
	add("NONE", "FPAQ", gen.KText, 4<<20+4096, 8<<20, 32, false)
	add("NONE", "ANS1", gen.KText, 4<<20+4096, 8<<20, 0, false)
	add("RLT", "FPAQ", gen.KLatin1, 9<<20, 16<<20, 64, false)
	return es
}

// TestGoldenGen (VERIF_GOLDEN_GEN=1) regenerates /verif/golden with the reference encoder. Development only.
func TestGoldenGen(t *testing.T) {
	if os.Getenv("VERIF_GOLDEN_GEN") == "" {
		t.Skip("development helper")
	}
	dir := os.Getenv("VERIF_ROOT")
	if dir == "" {
		dir = "/verif"
	}
	dir = filepath.Join(dir, "golden")
	os.RemoveAll(dir)
	os.MkdirAll(dir, 0o755)
	var idx []GoldenEntry
	for i, e := range goldenPlan() {
		data := e.Data.Expand()
		st, err := refCompress(data, e.Cfg)
		if err != nil {
			t.Logf("skip %s: %v", e.Cfg.String(), err)
			continue
		}
		back, err := refDecompress(st, e.Cfg, 1)
		if err != nil || !bytes.Equal(back, data) {
			t.Logf("skip %s: reference does not round-trip", e.Cfg.String())
			continue
		}
		h := sha256.Sum256(data)
		e.File = fmt.Sprintf("%03d_%s_%s.knz", i, strings.ToLower(strings.ReplaceAll(e.Cfg.Transform, "+", "-")), strings.ToLower(e.Cfg.Entropy))
		e.Len, e.SHA256 = len(data), hex.EncodeToString(h[:])
		if ps, err := parseStream(st, e.Cfg); err == nil {
			e.Blocks = len(ps.Blocks)
		}
		os.WriteFile(filepath.Join(dir, e.File), st, 0o644)
		idx = append(idx, e)
	}
	b, _ := json.MarshalIndent(idx, "", " ")
	os.WriteFile(filepath.Join(dir, "index.json"), b, 0o644)
	t.Logf("golden corpus: %d streams", len(idx))
}

func TestC10(t *testing.T) {
	r := start(t, "C10")
	for _, p := range r.ReplayFiles() {
		ff, err := vrt.LoadFail(p)
		if err != nil {
			t.Fatalf("unreadable replay file %s: %v", p, err)
		}
		var c C10Case
		if err := json.Unmarshal(ff.Case, &c); err != nil {
			t.Fatalf("bad case in %s: %v", p, err)
		}
		if c.Golden != "" {
			continue // corpus entries are always re-checked below
		}
		if o := c10Eval(r, c); o.msg != "" {
			r.RecordFailure("format", c, p, o.msg)
			t.Fatalf("replay %s: %s", p, o.msg)
		}
		r.Label("replayed")
	}
	if r.ReplayOnly() {
		return
	}
	// --- golden corpus
	var idx []GoldenEntry
	if b, err := os.ReadFile(filepath.Join(goldenDir(r), "index.json")); err == nil {
		json.Unmarshal(b, &idx)
	}
	if len(idx) == 0 {
		t.Fatalf("golden corpus missing under %s", goldenDir(r))
	}
	sort.Slice(idx, func(i, j int) bool { return idx[i].File < idx[j].File })
	for i, e := range idx {
		if !r.Mine(i) {
			continue
		}
		if !r.Thorough() && e.Cfg.Entropy == "TPAQX" && e.Cfg.BlockSize >= 64<<20 {
			continue // 1 GiB of state tables for one small block: thorough tier only
		}
		c := C10Case{Cfg: e.Cfg, Data: e.Data, ReadJobs: uint(1 + i%4), Golden: e.File}
		st, err := os.ReadFile(filepath.Join(goldenDir(r), e.File))
		if err != nil {
			t.Fatalf("golden stream %s unreadable: %v", e.File, err)
		}
		fail := func(msg string) {
			if r.Survey() {
				r.Violation(t, "format", c, "%s", msg)
				return
			}
			r.RecordFailure("format", c, "", msg)
			t.Fatalf("golden corpus: %s", msg)
		}
		got, err := Decompress(st, e.Cfg, c.ReadJobs, nil)
		h := sha256.Sum256(got)
		_, nt, _ := streamLabels(st, e.Cfg)
		r.Eval(vrt.HashOf(c), nt, "golden", "entropy:"+e.Cfg.Entropy)
		if err != nil {
			fail(fmt.Sprintf("archived reference stream %s (%s) no longer decodes: %v", e.File, e.Cfg.String(), err))
			continue
		}
		if len(got) != e.Len || hex.EncodeToString(h[:]) != e.SHA256 {
			fail(fmt.Sprintf("archived reference stream %s (%s) decodes to %d bytes with a different SHA-256 than the recorded original (%d bytes)", e.File, e.Cfg.String(), len(got), e.Len))
			continue
		}
		// the independent parser must keep understanding the container of every golden stream
		var ps *kfmt.Stream
		if e.Cfg.Headerless {
			ps, err = kfmt.ParseHeaderless(st, int(e.Cfg.Checksum))
		} else {
			ps, err = kfmt.Parse(st)
		}
		if err != nil || len(ps.Blocks) != e.Blocks {
			r.Note("kfmt self-check: %s parses to %v blocks (%v), index says %d", e.File, ps, err, e.Blocks)
			r.Label("kfmt-selfcheck-failed")
		}
	}
	r.SetExhaustive("golden corpus", true)
	// --- differential against the reference
	prop := func(maxBlock, maxTotal int) func(*rapid.T) {
		return func(t *rapid.T) {
			var c C10Case
			c.Cfg = gen.DrawConfig(t, gen.ConfigOpts{MaxBlock: maxBlock, MaxJobs: 4})
			bs := int(c.Cfg.BlockSize)
			ml := min(maxTotal, 5*bs)
			if c.Cfg.Entropy == "TPAQ" || c.Cfg.Entropy == "TPAQX" || c.Cfg.Entropy == "CM" {
				ml = min(ml, 2*bs, 64*1024)
			}
			c.Data = gen.DrawRecipe(t, ml, "data")
			c.Cfg.Hint, c.Cfg.HintClass = 0, "absent"
			if rapid.Bool().Draw(t, "hint") {
				c.Cfg.Hint, c.Cfg.HintClass = int64(c.Data.Len), "exact"
			}
			c.ReadJobs = gen.DrawJobs(t, 8, "readJobs")
			if o := c10Eval(r, c); o.msg != "" {
				r.Violation(t, "format", c, "%s", o.msg)
			}
		}
	}
	r.Rapid(t, "differential", 2500, 80000, prop(32768, 256*1024))
	r.Rapid(t, "differential-large", 40, 1500, prop(r.Pick(1<<20, 8<<20), r.Pick(2<<20, 20<<20)))
}
