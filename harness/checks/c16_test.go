package checks

import (
	"encoding/json"
	"fmt"
	"testing"

	"github.com/flanglet/kanzi-go/v2/entropy"
	"pgregory.net/rapid"

	"verif/harness/vrt"
)

// C16Case is a histogram and a scale; only non-zero entries are stored.
type C16Case struct {
	Freqs map[int]int `json:"freqs"`
	Scale int         `json:"scale"`
}

func (c C16Case) table() (f [256]int, total, present int) {
	for i, v := range c.Freqs {
		if i >= 0 && i < 256 && v > 0 {
			f[i] = v
			total += v
			present++
		}
	}
	return
}

func c16FromTable(f *[256]int, scale int) C16Case {
	c := C16Case{Freqs: map[int]int{}, Scale: scale}
	for i, v := range f {
		if v > 0 {
			c.Freqs[i] = v
		}
	}
	return c
}

// c16Check is the validity predicate (the oracle). It returns "" when the
// table is valid, and a description of the first broken clause otherwise.
func c16Check(orig *[256]int, total, present, scale int) (msg string, slow bool) {
	f := *orig
	var alpha [256]int
	var n int
	var err error
	if e := guard(func() error {
		n, err = entropy.NormalizeFrequencies(f[:], alpha[:], total, scale)
		return nil
	}); e != nil {
		return e.Error(), false
	}
	if err != nil {
		return "error returned: " + err.Error(), false
	}
	if n != present {
		return fmt.Sprintf("returned alphabet size %d, %d symbols present", n, present), false
	}
	sum := 0
	for i := 0; i < 256; i++ {
		sum += f[i]
		if f[i] < 0 {
			return fmt.Sprintf("symbol %d scaled to negative %d", i, f[i]), false
		}
		if (orig[i] > 0) != (f[i] > 0) {
			return fmt.Sprintf("symbol %d: count %d scaled to %d (presence not preserved)", i, orig[i], f[i]), false
		}
		if f[i] > scale {
			return fmt.Sprintf("symbol %d scaled to %d > scale %d", i, f[i], scale), false
		}
	}
	if sum != scale {
		return fmt.Sprintf("table sums to %d, scale is %d (present=%d total=%d)", sum, scale, present, total), false
	}
	k := 0
	for i := 0; i < 256; i++ {
		if orig[i] > 0 {
			if alpha[k] != i {
				return fmt.Sprintf("alphabet[%d]=%d, expected symbol %d (increasing order of present symbols)", k, alpha[k], i), false
			}
			k++
		}
	}
	// Second call pattern, as the Huffman encoder's length limiter makes it: the present symbols are renumbered
	// 0..present-1 and the two slices are cut to that length (freqs[:present], alphabet[:present]).
	{
		var f2, a2 [256]int
		k := 0
		for i := 0; i < 256; i++ {
			if orig[i] > 0 {
				f2[k] = orig[i]
				k++
			}
		}
		var n2 int
		var err2 error
		if e := guard(func() error {
			n2, err2 = entropy.NormalizeFrequencies(f2[:present], a2[:present], total, scale)
			return nil
		}); e != nil {
			return "compact call (slices cut to the alphabet size, as the Huffman encoder calls it): " + e.Error(), false
		}
		if err2 != nil {
			return "compact call: error returned: " + err2.Error(), false
		}
		if n2 != present {
			return fmt.Sprintf("compact call: returned alphabet size %d, %d symbols present", n2, present), false
		}
		sum2 := 0
		for i := 0; i < present; i++ {
			sum2 += f2[i]
			if f2[i] <= 0 || f2[i] > scale || a2[i] != i {
				return fmt.Sprintf("compact call: entry %d scaled to %d with alphabet[%d]=%d", i, f2[i], i, a2[i]), false
			}
		}
		if sum2 != scale {
			return fmt.Sprintf("compact call: table sums to %d, scale is %d (present=%d total=%d)", sum2, scale, present, total), false
		}
	}
	// label: did the call leave the fast path? (recomputed independently)
	sumScaled, mx := 0, 0
	for i := 0; i < 256; i++ {
		if orig[i] == 0 {
			continue
		}
		sf := int64(orig[i]) * int64(scale)
		s := 1
		if sf > int64(total) {
			s = int((sf + int64(total)>>1) / int64(total))
		}
		sumScaled += s
		if s > mx {
			mx = s
		}
	}
	d := sumScaled - scale
	if d < 0 {
		d = -d
	}
	return "", d > mx>>4
}

func c16Run(r *vrt.Run, c C16Case) string {
	f, total, present := c.table()
	if total == 0 || present > c.Scale || c.Scale < 256 || c.Scale > 65536 {
		return ""
	}
	msg, slow := c16Check(&f, total, present, c.Scale)
	nontrivial := total != c.Scale && present >= 2
	lab := "path:fast"
	if slow {
		lab = "path:slow"
	}
	if !nontrivial {
		lab = "path:shortcut"
	}
	r.Eval(vrt.HashOf(c), nontrivial, lab, fmt.Sprintf("scale:%d", c.Scale))
	if nontrivial && r.WantSample() {
		r.Sample(map[string]any{"scale": c.Scale, "present": present, "total": total, "path": lab, "case": c})
	}
	return msg
}

func TestC16(t *testing.T) {
	r := start(t, "C16")

	// --- replay tier
	for _, p := range r.ReplayFiles() {
		ff, err := vrt.LoadFail(p)
		if err != nil {
			t.Fatalf("unreadable replay file %s: %v", p, err)
		}
		var c C16Case
		if err := json.Unmarshal(ff.Case, &c); err != nil {
			t.Fatalf("bad case in %s: %v", p, err)
		}
		if msg := c16Run(r, c); msg != "" {
			r.RecordFailure("normalize", c, p, msg)
			t.Fatalf("replay %s: %s", p, msg)
		}
		r.Label("replayed")
	}
	if r.ReplayOnly() {
		return
	}

	fail := func(c C16Case, msg string) {
		r.RecordFailure("normalize", c, "", msg)
		t.Fatalf("C16 violated: %s on %s", msg, jsonOf(c))
	}

	// --- (a) exhaustive small domain: 4 fixed symbols, counts 0..maxC, all 9 scales
	maxC := r.Pick(9, 14)
	pos := [4]int{0, 7, 128, 255}
	idx := 0
	for a := 0; a <= maxC; a++ {
		for b := 0; b <= maxC; b++ {
			idx++
			if !r.Mine(idx) {
				continue
			}
			for c := 0; c <= maxC; c++ {
				for d := 0; d <= maxC; d++ {
					for lr := 8; lr <= 16; lr++ {
						var f [256]int
						f[pos[0]], f[pos[1]], f[pos[2]], f[pos[3]] = a, b, c, d
						cs := c16FromTable(&f, 1<<lr)
						if msg := c16Run(r, cs); msg != "" {
							fail(cs, msg)
						}
					}
				}
			}
		}
	}
	r.SetExhaustive(fmt.Sprintf("4 symbols x counts 0..%d x 9 scales", maxC), true)

	// --- (b) directed family: k rare symbols at rounding edges + m dominant ones
	kStep := r.Pick(7, 1)
	idx = 0
	for lr := 8; lr <= 16; lr++ {
		scale := 1 << lr
		for k := 1; k <= 255; k += kStep {
			for m := 1; m <= 4 && k+m <= 256; m++ {
				idx++
				if !r.Mine(idx) {
					continue
				}
				for _, mult := range []int{1, 2, 3, 5, 16, 33, 100, 1000} {
					for _, rareC := range []int{1, 2, 3} {
						// total chosen so that rareC*scale/total is close to x.5
						for _, half := range []int{-1, 0, 1} {
							var f [256]int
							for i := 0; i < k; i++ {
								f[255-i] = rareC
							}
							dom := (2*rareC*scale/(2*mult+1) + half) // ideal scaled value ~ mult+0.5
							tot := dom
							if tot <= k*rareC {
								continue
							}
							rest := tot - k*rareC
							for i := 0; i < m; i++ {
								f[i] = rest / m
							}
							f[0] += rest - (rest/m)*m
							if f[m-1] == 0 {
								continue
							}
							cs := c16FromTable(&f, scale)
							if msg := c16Run(r, cs); msg != "" {
								fail(cs, msg)
							}
						}
					}
				}
			}
		}
	}
	r.SetExhaustive("directed rare+dominant family", kStep == 1)

	// --- (c) rapid: random shapes
	r.Rapid(t, "random", 600000, 40000000, func(t *rapid.T) {
		scale := 1 << rapid.IntRange(8, 16).Draw(t, "logscale")
		k := rapid.IntRange(1, 256).Draw(t, "k")
		shape := rapid.IntRange(0, 5).Draw(t, "shape")
		var f [256]int
		perm := rapid.Permutation(identity256[:]).Draw(t, "perm")
		switch shape {
		case 0: // arbitrary counts
			for i := 0; i < k; i++ {
				f[perm[i]] = rapid.IntRange(1, 1000).Draw(t, "c")
			}
		case 1: // rare + dominant
			for i := 0; i < k; i++ {
				f[perm[i]] = rapid.IntRange(1, 3).Draw(t, "rare")
			}
			m := rapid.IntRange(1, 3).Draw(t, "m")
			for i := 0; i < m; i++ {
				f[perm[255-i]] = 1 << rapid.IntRange(0, 24).Draw(t, "domlog")
				f[perm[255-i]] += rapid.IntRange(0, 1000).Draw(t, "domadd")
			}
		case 2: // flat
			v := rapid.IntRange(1, 100).Draw(t, "v")
			for i := 0; i < k; i++ {
				f[perm[i]] = v + rapid.IntRange(0, 1).Draw(t, "j")
			}
		case 3: // log-uniform
			for i := 0; i < k; i++ {
				f[perm[i]] = 1 + rapid.IntRange(0, 1<<rapid.IntRange(0, 19).Draw(t, "l")).Draw(t, "c")
			}
		case 4: // geometric
			v := 1 << rapid.IntRange(4, 22).Draw(t, "top")
			for i := 0; i < k && v > 0; i++ {
				f[perm[i]] = v
				v = v * rapid.IntRange(1, 9).Draw(t, "num") / 10
			}
		case 5: // total equal or next to the scale
			left := scale + rapid.IntRange(-3, 3).Draw(t, "delta")
			for i := 0; i < k && left > 0; i++ {
				c := rapid.IntRange(1, max(1, left/(k-i))).Draw(t, "c")
				if i == k-1 {
					c = left
				}
				f[perm[i]] = c
				left -= c
			}
		}
		// cap the total at 2^27 (largest block the callers can pass is below that per chunk)
		tot := 0
		for _, v := range f {
			tot += v
		}
		if tot > 1<<27 {
			t.Skip("total above 2^27")
		}
		cs := c16FromTable(&f, scale)
		if msg := c16Run(r, cs); msg != "" {
			r.Violation(t, "normalize", cs, "%s", msg)
		}
	})
}

var identity256 = func() (a [256]int) {
	for i := range a {
		a[i] = i
	}
	return
}()
