//go:build verif

package checks

import (
	"bytes"
	"encoding/json"
	"fmt"
	"runtime"
	"runtime/debug"
	"strings"
	"sync"
	"testing"

	"pgregory.net/rapid"

	"verif/harness/gen"
	"verif/harness/vrt"
)

// C18Pipe is one compress -> decompress pipeline.
type C18Pipe struct {
	Cfg      gen.Config `json:"cfg"`
	Data     gen.Recipe `json:"data"`
	ReadJobs uint       `json:"read_jobs"`
	// Verbose > 0: Writer and Reader are built through the WithCtx constructors with ctx["verbosity"] = Verbose
	// and an event listener attached (the way the command-line tool drives them with -v 3 and above)
	Verbose uint `json:"verbose,omitempty"`
}

func (p C18Pipe) compress(data []byte, cfg gen.Config) ([]byte, error) {
	if p.Verbose == 0 {
		return Compress(data, cfg, nil)
	}
	return CompressWith(data, cfg, nil, map[string]any{"verbosity": p.Verbose}, newEvRec())
}

func (p C18Pipe) decompress(stream []byte, cfg gen.Config, jobs uint) ([]byte, error) {
	if p.Verbose == 0 {
		return Decompress(stream, cfg, jobs, nil)
	}
	return DecompressWith(stream, cfg, jobs, nil, map[string]any{"verbosity": p.Verbose}, newEvRec())
}

// C18Case: K pipelines run concurrently, each on its own goroutine.
type C18Case struct {
	Pipes   []C18Pipe `json:"pipes"`
	Perturb uint64    `json:"perturb"`
	Level   int       `json:"level"`
	// Procs > 0: the concurrent phase runs with runtime.GOMAXPROCS(Procs). With 1, goroutines run one after the
	// other, which puts two conflicting unsynchronised accesses of "neighbouring" goroutines close together in
	// the race detector's bounded history (far-apart conflicting accesses are dropped by the detector).
	Procs int `json:"procs,omitempty"`
	// ColdStart: the concurrent phase runs FIRST and the runs alone (the reference results) afterwards: package
	// state that is initialised lazily on first use is then first touched by several goroutines at once. Only
	// meaningful for the first case a process executes.
	ColdStart bool `json:"cold_start,omitempty"`
}

type c18Out struct {
	msg        string
	nontrivial bool
	maxLive    int32
}

func runC18(r *vrt.Run, c C18Case) (o c18Out) {
	r.Inflight("interference", c)
	defer r.InflightDone()
	type solo struct {
		data, stream []byte
		skip         bool
	}
	solos := make([]solo, len(c.Pipes))
	if c.ColdStart {
		return runC18Cold(c)
	}
	for i, p := range c.Pipes {
		d := p.Data.Expand()
		cfg := p.Cfg
		cfg.Jobs = 1
		st, err := p.compress(d, cfg)
		if err != nil {
			solos[i].skip = true
			continue
		}
		out, err := p.decompress(st, cfg, 1)
		if err != nil || !bytes.Equal(out, d) {
			solos[i].skip = true // not an interference matter (C01)
			continue
		}
		solos[i] = solo{data: d, stream: st}
	}
	msgs := make([]string, len(c.Pipes))
	p := newPerturb(c.Perturb, c.Level)
	withPerturb(p, func() {
		if c.Procs > 0 {
			defer runtime.GOMAXPROCS(runtime.GOMAXPROCS(c.Procs))
		}
		var wg sync.WaitGroup
		for i := range c.Pipes {
			if solos[i].skip {
				continue
			}
			wg.Add(1)
			go func(i int) {
				defer wg.Done()
				pp := c.Pipes[i]
				st, err := pp.compress(solos[i].data, pp.Cfg)
				if err != nil {
					msgs[i] = fmt.Sprintf("pipeline %d (%s): compression failed when run next to the others: %v", i, pp.Cfg.String(), err)
					return
				}
				if !bytes.Equal(st, solos[i].stream) {
					msgs[i] = fmt.Sprintf("pipeline %d (%s): compressed bytes differ from the run alone (first difference at %d)", i, pp.Cfg.String(), firstDiff(st, solos[i].stream))
					return
				}
				out, err := pp.decompress(st, pp.Cfg, max(pp.ReadJobs, 1))
				if err != nil {
					msgs[i] = fmt.Sprintf("pipeline %d (%s): decompression failed when run next to the others: %v", i, pp.Cfg.String(), err)
					return
				}
				if !bytes.Equal(out, solos[i].data) {
					msgs[i] = fmt.Sprintf("pipeline %d (%s): decoded bytes differ from the run alone (first difference at %d)", i, pp.Cfg.String(), firstDiff(out, solos[i].data))
				}
			}(i)
		}
		wg.Wait()
	})
	o.maxLive = p.MaxLive
	active, multi := 0, false
	for i, m := range msgs {
		if !solos[i].skip {
			active++
			if c.Pipes[i].Cfg.Jobs >= 2 || c.Pipes[i].ReadJobs >= 2 {
				multi = true
			}
		}
		if m != "" && o.msg == "" {
			o.msg = m
		}
	}
	helpers := false
	for i, pp := range c.Pipes {
		if !solos[i].skip && pp.Cfg.BlockSize > 4<<20 && pp.Data.Len > 4<<20 && pp.Cfg.Hint > 0 && pp.ReadJobs >= 2 && strings.Contains(pp.Cfg.Transform, "BWT") {
			helpers = true // inverse BWT ran with helper goroutines
		}
	}
	o.nontrivial = (active >= 2 && multi && p.MaxLive >= 2) || helpers
	return
}

// runC18Cold runs the pipelines concurrently before anything else has used the library in this process, then
// each of them alone, and compares.
func runC18Cold(c C18Case) (o c18Out) {
	type res struct {
		data, st, out []byte
		err           error
	}
	rs := make([]res, len(c.Pipes))
	for i, p := range c.Pipes {
		rs[i].data = p.Data.Expand()
	}
	var wg sync.WaitGroup
	start := make(chan struct{})
	for i := range c.Pipes {
		wg.Add(1)
		go func(i int) {
			defer wg.Done()
			pp := c.Pipes[i]
			<-start
			rs[i].st, rs[i].err = pp.compress(rs[i].data, pp.Cfg)
			if rs[i].err == nil {
				rs[i].out, rs[i].err = pp.decompress(rs[i].st, pp.Cfg, max(pp.ReadJobs, 1))
			}
		}(i)
	}
	close(start)
	wg.Wait()
	o.nontrivial = len(c.Pipes) >= 2
	for i, pp := range c.Pipes {
		cfg := pp.Cfg
		cfg.Jobs = 1
		st, err := pp.compress(rs[i].data, cfg)
		if err != nil {
			continue // not an interference matter (C01)
		}
		out, err := pp.decompress(st, cfg, 1)
		if err != nil || !bytes.Equal(out, rs[i].data) {
			continue
		}
		switch {
		case rs[i].err != nil:
			o.msg = fmt.Sprintf("cold start: pipeline %d (%s) failed when it was among the first users of the library in the process (%v) but works alone", i, pp.Cfg.String(), rs[i].err)
		case !bytes.Equal(rs[i].st, st):
			o.msg = fmt.Sprintf("cold start: pipeline %d (%s): compressed bytes differ from the run alone (first difference at %d)", i, pp.Cfg.String(), firstDiff(rs[i].st, st))
		case !bytes.Equal(rs[i].out, rs[i].data):
			o.msg = fmt.Sprintf("cold start: pipeline %d (%s): decoded bytes differ from the run alone (first difference at %d)", i, pp.Cfg.String(), firstDiff(rs[i].out, rs[i].data))
		}
		if o.msg != "" {
			return
		}
	}
	return
}

// c18ColdCase is the first case of a shard: two pairs of pipelines, each pair on the same codecs, chosen by the
// shard number so that the 8 shards together start cold on every transform and entropy codec.
func c18ColdCase(shard int) C18Case {
	chains := []string{"TEXT+UTF", "BWT+RANK+ZRLT", "EXE+RLT+LZ", "DNA+PACK+LZX", "MM+ROLZ", "LZP+SRT+MTFT", "ROLZX+BWTS", "TEXT"}
	entropies := []string{"HUFFMAN", "ANS0", "ANS1", "RANGE", "FPAQ", "CM", "TPAQ", "TPAQX"}
	var c C18Case
	c.ColdStart = true
	for j := 0; j < 2; j++ {
		ch := chains[(shard+3*j)%len(chains)]
		en := entropies[(shard+4*j)%len(entropies)]
		kinds := affinity(strings.Split(ch, "+")[0])
		for k := 0; k < 2; k++ {
			kind := gen.KText
			if len(kinds) > 0 {
				kind = kinds[0]
			}
			c.Pipes = append(c.Pipes, C18Pipe{Cfg: gen.Config{Transform: ch, Entropy: en, BlockSize: 4096, Jobs: 2, Checksum: 32, HintClass: "absent"},
				Data: gen.Recipe{Kind: kind, Len: 3*4096 - 100*k, Seed: uint64(10*shard + 2*j + k + 1), P1: 1}, ReadJobs: 2})
		}
	}
	return c
}

func c18Eval(r *vrt.Run, c C18Case) c18Out {
	o := runC18(r, c)
	labels := []string{fmt.Sprintf("pipes:%d", len(c.Pipes)), fmt.Sprintf("maxlive:%d", min(int(o.maxLive), 16)/4*4)}
	seen := map[string]bool{}
	for _, p := range c.Pipes {
		for _, n := range chainNames(p.Cfg.Transform) {
			seen["uses:"+n] = true
		}
		seen["uses-entropy:"+p.Cfg.Entropy] = true
		if p.Verbose > 0 {
			seen[fmt.Sprintf("listener+verbosity:%d", p.Verbose)] = true
		}
		seen["hint:"+p.Cfg.HintClass] = true
	}
	if c.Procs > 0 {
		labels = append(labels, fmt.Sprintf("gomaxprocs:%d", c.Procs))
	}
	for k := range seen {
		labels = append(labels, k)
	}
	r.Eval(vrt.HashOf(c), o.nontrivial, labels...)
	if o.nontrivial && r.WantSample() {
		var ps []string
		for _, p := range c.Pipes {
			ps = append(ps, fmt.Sprintf("%s | %s | rjobs=%d verbosity=%d", p.Cfg.String(), p.Data.String(), p.ReadJobs, p.Verbose))
		}
		r.Sample(map[string]any{"pipelines": ps, "perturb_level": c.Level, "max_tasks_alive": o.maxLive})
	}
	return o
}

func drawC18(t *rapid.T, maxBlock int) C18Case {
	var c C18Case
	k := rapid.IntRange(2, 8).Draw(t, "k")
	for i := 0; i < k; i++ {
		var p C18Pipe
		p.Cfg = gen.DrawConfig(t, gen.ConfigOpts{MaxBlock: maxBlock, MaxJobs: 16, HeavyOK: rapid.IntRange(0, 5).Draw(t, "heavy") == 0})
		bs := int(p.Cfg.BlockSize)
		ln := rapid.IntRange(1, 6*bs).Draw(t, "len")
		if p.Cfg.Entropy == "TPAQ" || p.Cfg.Entropy == "TPAQX" || p.Cfg.Entropy == "CM" {
			ln = min(ln, 2*bs)
		}
		p.Data = gen.DrawRecipe(t, 1, "data")
		p.Data.Len = ln
		// kinds that put the shared static tables to work: text dictionary, UTF, DNA, exe
		if rapid.Bool().Draw(t, "textual") {
			p.Data.Kind = rapid.SampledFrom([]int{gen.KText, gen.KXML, gen.KUTF8, gen.KDNA, gen.KExeX86}).Draw(t, "kind")
		}
		p.Cfg.Hint, p.Cfg.HintClass = 0, "absent"
		if rapid.Bool().Draw(t, "hint") {
			// with the size in the header the reader knows the block count and hands spare jobs to the block tasks
			p.Cfg.Hint, p.Cfg.HintClass = int64(ln), "exact"
		}
		p.ReadJobs = gen.DrawJobs(t, 16, "readJobs")
		if rapid.Bool().Draw(t, "listen") {
			p.Verbose = rapid.SampledFrom([]uint{1, 3, 5, 6}).Draw(t, "verbose")
		}
		c.Pipes = append(c.Pipes, p)
	}
	c.Perturb = rapid.Uint64Range(1, 1<<20).Draw(t, "perturb")
	c.Level = rapid.IntRange(0, 2).Draw(t, "level")
	return c
}

func TestC18(t *testing.T) {
	r := start(t, "C18")
	if !r.ReplayOnly() {
		// before anything else touches the library in this process (the replay tier included)
		c := c18ColdCase(r.Shard)
		r.Label("cold-start")
		if o := c18Eval(r, c); o.msg != "" {
			r.RecordFailure("interference", c, "", o.msg)
			t.Fatalf("cold start: %s", o.msg)
		}
	}
	for _, p := range r.ReplayFiles() {
		ff, err := vrt.LoadFail(p)
		if err != nil {
			t.Fatalf("unreadable replay file %s: %v", p, err)
		}
		var c C18Case
		if err := json.Unmarshal(ff.Case, &c); err != nil || len(c.Pipes) == 0 {
			r.Label("replay-skipped:not-a-case")
			continue
		}
		if c.Level == -1 {
			if msg := c18History(c); msg != "" {
				r.RecordFailure("interference", c, p, msg)
				t.Fatalf("replay %s: %s", p, msg)
			}
			r.Label("replayed")
			continue
		}
		if o := c18Eval(r, c); o.msg != "" {
			r.RecordFailure("interference", c, p, o.msg)
			t.Fatalf("replay %s: %s", p, o.msg)
		}
		r.Label("replayed")
	}
	if r.ReplayOnly() {
		return
	}
	r.Rapid(t, "groups", 160, 2000, func(t *rapid.T) {
		c := drawC18(t, 8192)
		if o := c18Eval(r, c); o.msg != "" {
			r.Violation(t, "interference", c, "%s", o.msg)
		}
	})
	// History independence: "no mutable state shared between instances" also means that what an instance produces
	// does not depend on what other instances did BEFORE it (pooled or cached scratch state that is handed from one
	// instance to the next). Each case runs the victim pipeline alone first, then 1..4 other pipelines over the same
	// transform on data chosen to take that transform's early-exit / error paths (malformed UTF-8, truncated
	// sequences, hostile headers, incompressible bytes), then the victim again, sequentially: both victim runs must
	// be byte-identical.
	r.Rapid(t, "history-independence", 120, 2500, func(t *rapid.T) {
		focus := rapid.SampledFrom(gen.TransformNames[1:]).Draw(t, "focus")
		if rapid.IntRange(0, 2).Draw(t, "detectors") != 0 {
			// transforms with content detection and early exits, two times out of three
			focus = rapid.SampledFrom([]string{"UTF", "TEXT", "EXE", "MM", "DNA", "PACK", "RLT", "ROLZX", "LZ"}).Draw(t, "focus2")
		}
		chain := focus
		if rapid.Bool().Draw(t, "second") {
			chain = focus + "+" + rapid.SampledFrom(gen.TransformNames[1:]).Draw(t, "second")
		}
		mk := func(label string, kinds []int, wellFormed bool) C18Pipe {
			bs := uint(rapid.SampledFrom([]int{1024, 4096, 16384, 65536}).Draw(t, label+".bs"))
			p := C18Pipe{Cfg: gen.Config{Transform: chain, Entropy: rapid.SampledFrom([]string{"NONE", "HUFFMAN", "ANS0"}).Draw(t, label+".en"), BlockSize: bs,
				Jobs: uint(rapid.IntRange(1, 3).Draw(t, label+".jobs")), Checksum: 0, HintClass: "absent"}, ReadJobs: uint(rapid.IntRange(1, 3).Draw(t, label+".rjobs"))}
			p.Data = gen.DrawRecipe(t, 3*int(bs), label+".data")
			if kinds != nil && rapid.IntRange(0, 3).Draw(t, label+".aff") != 0 {
				p.Data.Kind = rapid.SampledFrom(kinds).Draw(t, label+".kind")
			}
			switch {
			case wellFormed:
				// the victim: the transform's favourite kind, well formed, so that the stage is applied and the comparison means something
				p.Data.Edge = 0
				if kinds != nil {
					p.Data.Kind = kinds[0]
				}
				if p.Data.Kind == gen.KUTF8 {
					p.Data.P1 = 3 * rapid.IntRange(0, 200).Draw(t, label+".alphabet")
				}
				p.Data.Len = max(p.Data.Len, 1500)
			default:
				// the others: same family, but decorated / malformed so that early exits and error paths run
				if rapid.Bool().Draw(t, label+".edged") {
					p.Data.Edge = rapid.IntRange(1, gen.NEdges-1).Draw(t, label+".edge")
				}
				if p.Data.Kind == gen.KUTF8 && rapid.Bool().Draw(t, label+".cut") {
					p.Data.P1 = 40001 + 2*rapid.IntRange(0, 14999).Draw(t, label+".cutSeed") // truncated code points inside the text
				}
			}
			return p
		}
		aff := affinity(focus)
		victim := mk("victim", aff, true)
		var others []C18Pipe
		for i, n := 0, rapid.IntRange(1, 4).Draw(t, "nothers"); i < n; i++ {
			others = append(others, mk(fmt.Sprintf("other%d", i), aff, false))
		}
		c := C18Case{Pipes: append([]C18Pipe{victim}, others...), Level: -1}
		r.Inflight("interference", c)
		defer r.InflightDone()
		data := victim.Data.Expand()
		// Pooled scratch state (sync.Pool, free lists) is handed from one instance to the next only while no garbage
		// collection empties the pools and, for per-processor pools, when both run on the same processor. Any GC
		// schedule and any processor count is a legitimate environment, so the harness picks the one in which reuse
		// is certain: collector off for the duration of the sequence and, two times out of three, a single processor.
		runtime.GC()
		oldGC := debug.SetGCPercent(-1)
		oldProcs := 0
		if rapid.IntRange(0, 2).Draw(t, "oneproc") != 0 {
			oldProcs = runtime.GOMAXPROCS(1)
		}
		defer func() {
			if oldProcs > 0 {
				runtime.GOMAXPROCS(oldProcs)
			}
			debug.SetGCPercent(oldGC)
		}()
		st1, err1 := victim.compress(data, victim.Cfg)
		for _, o := range others {
			od := o.Data.Expand()
			if st, err := o.compress(od, o.Cfg); err == nil {
				o.decompress(st, o.Cfg, max(o.ReadJobs, 1))
			}
		}
		st2, err2 := victim.compress(data, victim.Cfg)
		nontrivial := false
		if err1 == nil {
			_, nontrivial, _ = streamLabels(st1, victim.Cfg)
		}
		r.Eval(vrt.HashOf(c), nontrivial, "history-independence", "focus:"+focus)
		if nontrivial && r.WantSample() {
			r.Sample(map[string]any{"mode": "history-independence", "victim": victim.Cfg.String() + " | " + victim.Data.String(), "others_before_second_run": len(others)})
		}
		if (err1 == nil) != (err2 == nil) {
			r.Violation(t, "interference", c, "history dependence: pipeline 0 (%s) run alone: err=%v; run again after %d other instances had worked: err=%v", victim.Cfg.String(), err1, len(others), err2)
		}
		if err1 != nil {
			return
		}
		if !bytes.Equal(st1, st2) {
			r.Violation(t, "interference", c, "history dependence: pipeline 0 (%s) produced different compressed bytes after %d other instances had worked in the same process (first difference at %d of %d)",
				victim.Cfg.String(), len(others), firstDiff(st1, st2), len(st1))
		}
		out, err := victim.decompress(st2, victim.Cfg, max(victim.ReadJobs, 1))
		if err != nil || !bytes.Equal(out, data) {
			// the pair does not round-trip at all: C01's business, unless the first run did
			if out1, e1 := victim.decompress(st1, victim.Cfg, 1); e1 == nil && bytes.Equal(out1, data) {
				r.Violation(t, "interference", c, "history dependence: pipeline 0 (%s) decodes when run first but not after other instances (err=%v)", victim.Cfg.String(), err)
			}
		}
	})
	// BWT above 4 MiB: the inverse transform spawns helper goroutines when the block task owns several jobs, which
	// happens only when the header carries the size (block count known) and there are more reader jobs than
	// blocks. Job counts that split the 8 chunks unevenly (3, 5, 6, 7) and odd chunk sizes are included, and one
	// pipeline in two runs with GOMAXPROCS(1) (see C18Case.Procs).
	r.Rapid(t, "bwt-helpers", 8, 64, func(t *rapid.T) {
		var c C18Case
		np := rapid.IntRange(1, 2).Draw(t, "np")
		for i := 0; i < np; i++ {
			ln := 4<<20 + rapid.IntRange(1, 1<<19).Draw(t, "len")
			c.Pipes = append(c.Pipes, C18Pipe{Cfg: gen.Config{Transform: rapid.SampledFrom([]string{"BWT", "BWT", "TEXT+BWT"}).Draw(t, "tr"), Entropy: "NONE", BlockSize: 8 << 20,
				Jobs: uint(rapid.IntRange(1, 8).Draw(t, "jobs")), Checksum: 32, Hint: int64(ln), HintClass: "exact"},
				Data: gen.Recipe{Kind: gen.KText, Len: ln, Seed: uint64(i)}, ReadJobs: uint(rapid.SampledFrom([]int{3, 5, 6, 7, 3, 5, 6, 7, 2, 4, 8, 16}).Draw(t, "rjobs"))})
		}
		c.Perturb, c.Level = 5, rapid.IntRange(0, 1).Draw(t, "level")
		if rapid.Bool().Draw(t, "seq") {
			c.Procs = 1
		}
		if o := c18Eval(r, c); o.msg != "" {
			r.Violation(t, "interference", c, "%s", o.msg)
		}
	})
}

// affinity lists the data kinds a transform's detector accepts (nil: any).
func affinity(tr string) []int {
	switch tr {
	case "TEXT":
		return []int{gen.KText, gen.KXML, gen.KUTF8}
	case "UTF":
		return []int{gen.KUTF8, gen.KUTF8, gen.KText}
	case "EXE":
		return []int{gen.KExeX86, gen.KExeARM}
	case "MM":
		return []int{gen.KWav, gen.KBmp}
	case "DNA", "PACK":
		return []int{gen.KDNA, gen.KSmallAlpha, gen.KNumeric}
	case "RLT", "ZRLT":
		return []int{gen.KRuns, gen.KZeros, gen.KLimits}
	case "ROLZ", "ROLZX", "LZ", "LZX", "LZP":
		return []int{gen.KText, gen.KRepeat, gen.KDNA, gen.KLimits}
	}
	return nil
}

// c18History replays a history-independence case (pipe 0 = victim, others run in between).
func c18History(c C18Case) string {
	if len(c.Pipes) < 2 {
		return ""
	}
	v := c.Pipes[0]
	data := v.Data.Expand()
	st1, err1 := v.compress(data, v.Cfg)
	for _, o := range c.Pipes[1:] {
		if st, err := o.compress(o.Data.Expand(), o.Cfg); err == nil {
			o.decompress(st, o.Cfg, max(o.ReadJobs, 1))
		}
	}
	st2, err2 := v.compress(data, v.Cfg)
	if (err1 == nil) != (err2 == nil) {
		return fmt.Sprintf("history dependence: run alone err=%v, after the others err=%v", err1, err2)
	}
	if err1 == nil && !bytes.Equal(st1, st2) {
		return fmt.Sprintf("history dependence: pipeline 0 (%s) produced different compressed bytes after %d other instances had worked (first difference at %d)", v.Cfg.String(), len(c.Pipes)-1, firstDiff(st1, st2))
	}
	return ""
}
