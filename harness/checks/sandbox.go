package checks

import (
	"bufio"
	"bytes"
	"encoding/binary"
	"fmt"
	"io"
	"os"
	"os/exec"
	"runtime/debug"
	"strings"
	"sync"
	"sync/atomic"
	"syscall"
	"time"

	kanzi "github.com/flanglet/kanzi-go/v2"
	kio "github.com/flanglet/kanzi-go/v2/io"

	"verif/harness/fio"
)

// ---------------------------------------------------------------- worker side

type beCounter struct {
	mu  sync.Mutex
	n   int
	out *bufio.Writer
}

func (b *beCounter) ProcessEvent(evt *kanzi.Event) {
	switch evt.Type() {
	case kanzi.EVT_BEFORE_ENTROPY:
		b.mu.Lock()
		b.n++
		b.mu.Unlock()
	case kanzi.EVT_AFTER_HEADER_DECODING:
		// tell the parent at once which block size the READER took from the header (older header layouts put it
		// elsewhere): time and memory rules are stated in terms of that size
		if info := evt.Info(); info != nil && b.out != nil {
			b.mu.Lock()
			fmt.Fprintf(b.out, "H %d\n", info.BlockSize)
			b.out.Flush()
			b.mu.Unlock()
		}
	}
}

// workerMain is the child-process loop: it reads (jobs, stream) requests on stdin,
// decodes each stream to the end with a fixed buffer and answers one line on stdout.
// It never recovers from panics in other goroutines: dying is the observable.
func workerMain() {
	if lim := os.Getenv("VERIF_WORKER_AS"); lim != "" {
		var v uint64
		fmt.Sscanf(lim, "%d", &v)
		if v > 0 {
			syscall.Setrlimit(syscall.RLIMIT_AS, &syscall.Rlimit{Cur: v, Max: v})
		}
	}
	// keep the collector ahead of the address-space ceiling
	debug.SetMemoryLimit(3 << 30)
	in := bufio.NewReaderSize(os.Stdin, 1<<20)
	out := bufio.NewWriter(os.Stdout)
	buf := make([]byte, 1<<16)
	for {
		var hdr [8]byte
		if _, err := io.ReadFull(in, hdr[:]); err != nil {
			return
		}
		jobs := binary.LittleEndian.Uint32(hdr[0:])
		n := binary.LittleEndian.Uint32(hdr[4:])
		stream := make([]byte, n)
		if _, err := io.ReadFull(in, stream); err != nil {
			return
		}
		t0 := time.Now()
		status, nbytes, be := "ok", 0, &beCounter{out: out}
		func() {
			// a panic escaping Read on the calling goroutine is a violation too: report it, then die like the caller would
			defer func() {
				if p := recover(); p != nil {
					fmt.Fprintf(out, "R panic %d %d %d %q\n", nbytes, time.Since(t0).Milliseconds(), be.n, fmt.Sprint(p))
					out.Flush()
					os.Exit(7)
				}
			}()
			rd, err := kio.NewReader(fio.NewSource(stream), max(uint(jobs), 1))
			if err != nil {
				status = "err"
				return
			}
			rd.AddListener(be)
			for {
				k, err := rd.Read(buf)
				nbytes += k
				if err == io.EOF {
					break
				}
				if err != nil {
					status = "err"
					// a caller may well call Read again after an error (retry loops, io.Copy wrappers): these
					// calls too must come back with data, an error or end of stream - never crash or hang
					for i := 0; i < 3; i++ {
						if _, e2 := rd.Read(buf); e2 == io.EOF {
							break
						}
					}
					break
				}
				if k == 0 {
					status = "zero"
					break
				}
			}
			rd.Close()
		}()
		fmt.Fprintf(out, "R %s %d %d %d \"\"\n", status, nbytes, time.Since(t0).Milliseconds(), be.n)
		out.Flush()
	}
}

// ---------------------------------------------------------------- parent side

// SandboxResult is the outcome of one decode in a child process.
type SandboxResult struct {
	BlockSize int    // block size the reader took from the header (0 = the header was rejected or never reported)
	Status    string // ok, err, zero, panic, died, timeout
	Bytes     int
	Millis    int64
	Reached   int    // blocks that reached the entropy stage
	Detail    string // stderr tail / panic text
}

type sandboxWorker struct {
	cmd    *exec.Cmd
	stdin  io.WriteCloser
	stdout *bufio.Reader
	stderr *bytes.Buffer
}

// Sandbox owns one child worker and restarts it when it dies.
type Sandbox struct {
	w       *sandboxWorker
	ASLimit uint64
	Deaths  int
	Spawns  int
}

func (s *Sandbox) spawn() error {
	exe, err := os.Executable()
	if err != nil {
		return err
	}
	cmd := exec.Command(exe, "-test.run", "^$")
	cmd.Env = append(os.Environ(), "VERIF_WORKER=1", fmt.Sprintf("VERIF_WORKER_AS=%d", s.ASLimit), "GOMAXPROCS=4")
	stdin, err := cmd.StdinPipe()
	if err != nil {
		return err
	}
	stdout, err := cmd.StdoutPipe()
	if err != nil {
		return err
	}
	eb := &bytes.Buffer{}
	cmd.Stderr = eb
	if err := cmd.Start(); err != nil {
		return err
	}
	s.w = &sandboxWorker{cmd: cmd, stdin: stdin, stdout: bufio.NewReader(stdout), stderr: eb}
	s.Spawns++
	return nil
}

// Close stops the worker.
func (s *Sandbox) Close() {
	if s.w != nil {
		s.w.stdin.Close()
		s.w.cmd.Process.Kill()
		s.w.cmd.Wait()
		s.w = nil
	}
}

// Decode runs one decode in the child, with a wall-clock budget.
func (s *Sandbox) Decode(stream []byte, jobs uint, budget time.Duration) SandboxResult {
	if s.w == nil {
		if err := s.spawn(); err != nil {
			return SandboxResult{Status: "infra", Detail: err.Error()}
		}
	}
	w := s.w
	var hdr [8]byte
	binary.LittleEndian.PutUint32(hdr[0:], uint32(jobs))
	binary.LittleEndian.PutUint32(hdr[4:], uint32(len(stream)))
	type reply struct {
		line string
		err  error
	}
	ch := make(chan reply, 1)
	var seenBlock int64
	go func() {
		if _, err := w.stdin.Write(append(hdr[:], stream...)); err != nil {
			ch <- reply{"", err}
			return
		}
		for {
			line, err := w.stdout.ReadString('\n')
			if err == nil && strings.HasPrefix(line, "H ") {
				var bsz int64
				fmt.Sscanf(line, "H %d", &bsz)
				atomic.StoreInt64(&seenBlock, bsz)
				continue
			}
			ch <- reply{line, err}
			return
		}
	}()
	select {
	case r := <-ch:
		if r.err != nil || !strings.HasPrefix(r.line, "R ") {
			// the child died (or its pipe broke)
			w.cmd.Wait()
			s.w = nil
			s.Deaths++
			detail := w.stderr.String()
			if len(detail) > 6000 {
				detail = detail[:3000] + "\n...\n" + detail[len(detail)-3000:]
			}
			res := SandboxResult{Status: "died", Detail: strings.TrimSpace(r.line) + "\n" + detail, BlockSize: int(atomic.LoadInt64(&seenBlock))}
			if strings.HasPrefix(r.line, "R panic") {
				res.Status = "panic"
			}
			return res
		}
		res := SandboxResult{BlockSize: int(atomic.LoadInt64(&seenBlock))}
		var q string
		fmt.Sscanf(r.line, "R %s %d %d %d %q", &res.Status, &res.Bytes, &res.Millis, &res.Reached, &q)
		res.Detail = q
		if res.Status == "panic" {
			w.cmd.Wait()
			s.w = nil
			s.Deaths++
		}
		return res
	case <-time.After(budget):
		// CPU time tells a spin from a block
		cpu := ""
		if b, err := os.ReadFile(fmt.Sprintf("/proc/%d/stat", w.cmd.Process.Pid)); err == nil {
			f := strings.Fields(string(b))
			if len(f) > 15 {
				cpu = "utime+stime ticks " + f[13] + "+" + f[14]
			}
		}
		w.cmd.Process.Signal(syscall.SIGQUIT) // dump goroutines to stderr
		time.Sleep(300 * time.Millisecond)
		w.cmd.Process.Kill()
		w.cmd.Wait()
		s.w = nil
		detail := w.stderr.String()
		if len(detail) > 5000 {
			detail = detail[:5000]
		}
		return SandboxResult{Status: "timeout", Detail: cpu + "\n" + detail, BlockSize: int(atomic.LoadInt64(&seenBlock))}
	}
}
