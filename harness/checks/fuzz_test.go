package checks

import (
	"io"
	"os"
	"strconv"
	"strings"
	"testing"

	kio "github.com/flanglet/kanzi-go/v2/io"

	"verif/harness/fio"
	"verif/harness/gen"
	"verif/harness/kfmt"
)

// fuzzSeeds builds valid streams of every transform and entropy codec (small blocks), plus forged variants.
func fuzzSeeds() [][]byte {
	var out [][]byte
	add := func(tr, en string, kind int, n int, bs uint, ck uint) {
		cfg := gen.Config{Transform: tr, Entropy: en, BlockSize: bs, Jobs: 1, Checksum: ck}
		d := gen.Recipe{Kind: kind, Len: n, Seed: 9, P1: 1}.Expand()
		if s, err := Compress(d, cfg, nil); err == nil {
			out = append(out, s)
		}
	}
	for i, tr := range gen.TransformNames {
		add(tr, "NONE", []int{gen.KText, gen.KDNA, gen.KRuns, gen.KExeX86, gen.KUTF8, gen.KWav}[i%6], 3000, 2048, 0)
		add(tr, "HUFFMAN", gen.KText, 5000, 4096, 32)
	}
	for _, en := range gen.EntropyNames {
		add("NONE", en, gen.KText, 3000, 2048, 0)
		add("LZ", en, gen.KRuns, 3000, 2048, 64)
	}
	add("TEXT+UTF+BWT+RANK+ZRLT", "ANS0", gen.KUTF8, 6000, 4096, 32)
	return out
}

// fuzzPreFilter rejects inputs that only exercise the known 2 GiB allocation (KF-16) or declare huge blocks.
func fuzzPreFilter(data []byte) bool {
	h, err := kfmt.ParseHeader(kfmt.FromBytes(data))
	if err != nil {
		return true // the reader rejects it in the header; cheap, let it through
	}
	if h.BlockSize > 4<<20 {
		return false
	}
	return !c03LooksLikeKF16(data)
}

// FuzzReader: arbitrary bytes presented as a compressed stream. The target only waits for a crash of the
// fuzz worker (goroutine panic, fatal error) or a panic escaping Read; every finding is re-judged by the
// sandboxed C03 oracle before it counts.
func FuzzReader(f *testing.F) {
	for _, s := range fuzzSeeds() {
		f.Add(s, uint8(1))
		f.Add(s, uint8(3))
	}
	f.Add([]byte{}, uint8(1))
	f.Add([]byte{0x4B, 0x41, 0x4E, 0x5A, 0x60, 0, 0, 0}, uint8(2))
	f.Fuzz(func(t *testing.T, data []byte, jobs uint8) {
		if len(data) > 1<<16 || !fuzzPreFilter(data) {
			t.Skip()
		}
		j := uint(jobs%8) + 1
		rd, err := kio.NewReader(fio.NewSource(data), j)
		if err != nil {
			return
		}
		buf := make([]byte, 1<<15)
		for i := 0; i < 1<<16; i++ {
			n, err := rd.Read(buf)
			if err != nil || n == 0 {
				if err == nil {
					t.Fatalf("Read returned (0, nil)")
				}
				if err != io.EOF {
					// callers retry: the calls after an error must come back too
					for k := 0; k < 3; k++ {
						rd.Read(buf)
					}
				}
				break
			}
		}
		rd.Close()
	})
}

// readFuzzFile parses a corpus/crasher file written by the Go fuzzer.
func readFuzzFile(path string) ([]byte, uint) {
	b, err := os.ReadFile(path)
	if err != nil {
		return nil, 1
	}
	lines := strings.Split(string(b), "\n")
	var data []byte
	jobs := uint(1)
	for _, l := range lines {
		l = strings.TrimSpace(l)
		if strings.HasPrefix(l, "[]byte(") {
			q := strings.TrimSuffix(strings.TrimPrefix(l, "[]byte("), ")")
			if s, err := strconv.Unquote(q); err == nil {
				data = []byte(s)
			}
		} else if strings.HasPrefix(l, "uint8(") {
			q := strings.TrimSuffix(strings.TrimPrefix(l, "uint8("), ")")
			q = strings.Trim(q, "'")
			if v, err := strconv.ParseUint(q, 0, 8); err == nil {
				jobs = uint(v%8) + 1
			} else if u, err := strconv.Unquote("'" + q + "'"); err == nil && len(u) > 0 {
				jobs = uint(u[0]%8) + 1
			}
		}
	}
	return data, jobs
}
