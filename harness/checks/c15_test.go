package checks

import (
	"bytes"
	"encoding/json"
	"fmt"
	"strings"
	"testing"

	"github.com/flanglet/kanzi-go/v2/entropy"
	"github.com/flanglet/kanzi-go/v2/transform"
	"pgregory.net/rapid"

	"verif/harness/gen"
	"verif/harness/vrt"
)

// C15Case: a spelling of a (chain, entropy) pair compared with the canonical spelling.
type C15Case struct {
	Transform       string     `json:"transform"` // as spelled
	Entropy         string     `json:"entropy"`   // as spelled
	Headerless      bool       `json:"headerless,omitempty"`
	ReaderTransform string     `json:"reader_transform,omitempty"` // headerless reader spelling (default: same as writer)
	ReaderEntropy   string     `json:"reader_entropy,omitempty"`
	Data            gen.Recipe `json:"data"`
	BlockSize       uint       `json:"block_size"`
	LawsOnly        bool       `json:"laws_only,omitempty"`
	// Compose: the chain applied as ONE sequence (as the compressor builds it from the header's type word) must
	// give the same bytes and the same applied/declined decisions as its stages applied one after the other, each
	// built alone from its own type (only the data-type hint is handed on): otherwise a type in the header does
	// not denote the variant that really coded that stage
	Compose bool `json:"compose,omitempty"`
}

func respell(s string, mode int, mask uint64) string {
	b := []byte(s)
	for i := range b {
		up := true
		switch mode {
		case 0:
			up = false
		case 1:
			up = true
		case 2:
			up = i%2 == 0
		case 3:
			up = i%2 == 1
		default:
			up = (mask>>uint(i%64))&1 == 1
		}
		if b[i] >= 'A' && b[i] <= 'Z' && !up {
			b[i] += 'a' - 'A'
		} else if b[i] >= 'a' && b[i] <= 'z' && up {
			b[i] -= 'a' - 'A'
		}
	}
	return string(b)
}

func canonChain(chain string) string {
	n := chainNames(chain)
	if len(n) == 0 {
		return "NONE"
	}
	return strings.Join(n, "+")
}

// c15Laws checks the pure name <-> type laws for one spelled pair.
func c15Laws(tr, en string) string {
	up := strings.ToUpper(tr)
	t1, e1 := transform.GetType(tr)
	t2, e2 := transform.GetType(up)
	if e1 != nil || e2 != nil {
		return fmt.Sprintf("transform.GetType(%q) error %v / GetType(%q) error %v", tr, e1, up, e2)
	}
	if t1 != t2 {
		return fmt.Sprintf("transform.GetType(%q) = %#x but GetType(%q) = %#x", tr, t1, up, t2)
	}
	nm, err := transform.GetName(t1)
	if err != nil {
		return fmt.Sprintf("transform.GetName(GetType(%q)) error %v", tr, err)
	}
	if want := canonChain(tr); nm != want {
		return fmt.Sprintf("transform.GetName(GetType(%q)) = %q, want canonical %q", tr, nm, want)
	}
	if t3, err := transform.GetType(nm); err != nil || t3 != t1 {
		return fmt.Sprintf("transform.GetType(GetName(%#x)=%q) = %#x, %v", t1, nm, t3, err)
	}
	upe := strings.ToUpper(en)
	x1, e1 := entropy.GetType(en)
	x2, e2 := entropy.GetType(upe)
	if e1 != nil || e2 != nil {
		return fmt.Sprintf("entropy.GetType(%q) error %v / GetType(%q) error %v", en, e1, upe, e2)
	}
	if x1 != x2 {
		return fmt.Sprintf("entropy.GetType(%q) = %d but GetType(%q) = %d", en, x1, upe, x2)
	}
	if nm, err := entropy.GetName(x1); err != nil || nm != upe {
		return fmt.Sprintf("entropy.GetName(GetType(%q)) = %q, %v; want %q", en, nm, err, upe)
	}
	return ""
}

type c15Out struct {
	msg        string
	nontrivial bool
	known      string
}

// c15Compose compares a chain with the composition of its stages.
func c15Compose(c C15Case) (o c15Out) {
	names := chainNames(c.Transform)
	if len(names) == 0 || len(names) > 8 {
		return
	}
	data := c.Data.Expand()
	n := len(data)
	if n == 0 {
		return
	}
	en := strings.ToUpper(c.Entropy)
	bs := uint((max(n, 1024) + 15) &^ 15)
	mkctx := func(tr string) map[string]any {
		return map[string]any{"transform": tr, "entropy": en, "blockSize": bs, "size": uint(n), "bsVersion": uint(6), "jobs": uint(1)}
	}
	chain := strings.Join(names, "+")
	var chainOut []byte
	var chainFlags byte
	var required int
	err := guard(func() error {
		ty, e := transform.GetType(chain)
		if e != nil {
			return e
		}
		ctx := mkctx(chain)
		seq, e := transform.New(&ctx, ty)
		if e != nil {
			return e
		}
		required = seq.MaxEncodedLen(n)
		dst := make([]byte, required)
		_, w, e := seq.Forward(append([]byte(nil), data...), dst)
		if e != nil {
			return e
		}
		chainOut, chainFlags = dst[:w], seq.SkipFlags()
		return nil
	})
	if err != nil {
		o.msg = "applying the chain " + chain + " failed: " + err.Error()
		return
	}
	x := append([]byte(nil), data...)
	var flags byte = 0xFF
	var hint any
	for i, nm := range names {
		nm := nm
		err := guard(func() error {
			ty, e := transform.GetType(nm)
			if e != nil {
				return e
			}
			ctx := mkctx(nm)
			if hint != nil {
				ctx["dataType"] = hint
			}
			seq, e := transform.New(&ctx, ty)
			if e != nil {
				return e
			}
			dst := make([]byte, max(required, seq.MaxEncodedLen(len(x))))
			_, w, e := seq.Forward(x, dst)
			if e != nil {
				return e
			}
			if seq.SkipFlags()&0x80 == 0 {
				x = dst[:w]
				flags &^= 0x80 >> uint(i)
			}
			if v, ok := ctx["dataType"]; ok {
				hint = v
			}
			return nil
		})
		if err != nil {
			o.msg = fmt.Sprintf("stage %d (%s) applied alone failed: %v", i+1, nm, err)
			return
		}
	}
	mask := byte(0xFF) << uint(8-len(names))
	o.nontrivial = len(names) >= 2 && chainFlags&mask != mask
	if chainFlags&mask != flags&mask || !bytes.Equal(chainOut, x) {
		what := fmt.Sprintf("chain %s (entropy %s) on %s: the sequence built from the chain's type word gives skip flags %08b and %d bytes, its stages built one by one from their own types give %08b and %d bytes (first difference at %d): some type in the header does not denote the variant that coded its stage",
			chain, en, c.Data.String(), chainFlags&mask, len(chainOut), flags&mask, len(x), firstDiff(chainOut, x))
		o.msg = what
		// known, format-frozen: the ROLZ variant is chosen by looking for "ROLZX" in the name of the WHOLE chain
		hasR, hasRX := false, false
		for _, nm := range names {
			hasR = hasR || nm == "ROLZ"
			hasRX = hasRX || nm == "ROLZX"
		}
		if hasR && hasRX {
			o.known = "KF-32"
		}
	}
	return
}

func runC15(r *vrt.Run, c C15Case) (o c15Out) {
	if c.Compose {
		r.Inflight("names", c)
		defer r.InflightDone()
		return c15Compose(c)
	}
	if msg := c15Laws(c.Transform, c.Entropy); msg != "" {
		o.msg = msg
		return
	}
	spelled := c.Transform != strings.ToUpper(c.Transform) || c.Entropy != strings.ToUpper(c.Entropy) ||
		(c.ReaderTransform != "" && c.ReaderTransform != strings.ToUpper(c.ReaderTransform)) || (c.ReaderEntropy != "" && c.ReaderEntropy != strings.ToUpper(c.ReaderEntropy))
	if c.LawsOnly {
		o.nontrivial = spelled
		return
	}
	data := c.Data.Expand()
	cfgS := gen.Config{Transform: c.Transform, Entropy: c.Entropy, BlockSize: c.BlockSize, Jobs: 2, Checksum: 32, Headerless: c.Headerless}
	cfgC := cfgS
	cfgC.Transform, cfgC.Entropy = strings.ToUpper(c.Transform), strings.ToUpper(c.Entropy)
	r.Inflight("names", c)
	defer r.InflightDone()
	sS, err := Compress(data, cfgS, nil)
	if err != nil {
		o.msg = fmt.Sprintf("compression with spelling %q/%q failed: %v", c.Transform, c.Entropy, err)
		return
	}
	sC, err := Compress(data, cfgC, nil)
	if err != nil {
		o.msg = fmt.Sprintf("compression with canonical spelling %q/%q failed: %v", cfgC.Transform, cfgC.Entropy, err)
		return
	}
	if !bytes.Equal(sS, sC) {
		o.msg = fmt.Sprintf("spelling %q/%q produced a different stream than %q/%q: lengths %d vs %d, first difference at byte %d", c.Transform, c.Entropy, cfgC.Transform, cfgC.Entropy, len(sS), len(sC), firstDiff(sS, sC))
		return
	}
	// the canonical spelling must itself round-trip, otherwise the failure is not about names (C01's business)
	if outC, errC := Decompress(sC, cfgC, 2, nil); errC != nil || !bytes.Equal(outC, data) {
		r.Label("skipped:canonical-roundtrip-fails")
		return
	}
	rcfg := cfgS
	if c.ReaderTransform != "" {
		rcfg.Transform = c.ReaderTransform
	}
	if c.ReaderEntropy != "" {
		rcfg.Entropy = c.ReaderEntropy
	}
	out, err := Decompress(sS, rcfg, 2, nil)
	if err != nil {
		o.msg = fmt.Sprintf("decoding the stream written as %q/%q (reader %q/%q, headerless=%v) failed: %v", c.Transform, c.Entropy, rcfg.Transform, rcfg.Entropy, c.Headerless, err)
		return
	}
	if !bytes.Equal(out, data) {
		o.msg = fmt.Sprintf("stream written as %q/%q decodes to different bytes (first difference at %d): the type in the header does not map back to the variant used", c.Transform, c.Entropy, firstDiff(out, data))
		return
	}
	_, applied, _ := streamLabels(sS, cfgS)
	o.nontrivial = spelled && applied
	return
}

func c15Eval(r *vrt.Run, c C15Case) c15Out {
	o := runC15(r, c)
	mode := "stream"
	if c.LawsOnly {
		mode = "laws"
	}
	if c.Compose {
		mode = "compose"
	}
	labels := []string{"mode:" + mode, "entropy:" + strings.ToUpper(c.Entropy)}
	for _, n := range chainNames(c.Transform) {
		labels = append(labels, "chain-has:"+n)
	}
	if c.Headerless {
		labels = append(labels, "headerless")
	}
	r.Eval(vrt.HashOf(c), o.nontrivial, labels...)
	if o.nontrivial && r.WantSample() {
		r.Sample(map[string]any{"transform": c.Transform, "entropy": c.Entropy, "headerless": c.Headerless, "reader_transform": c.ReaderTransform,
			"reader_entropy": c.ReaderEntropy, "mode": mode, "data": c.Data.String()})
	}
	return o
}

// data on which the variant-specific code paths differ
var c15DataFor = map[string]gen.Recipe{
	"TEXT": {Kind: gen.KText, Len: 20000, Seed: 3, P1: 1}, "UTF": {Kind: gen.KUTF8, Len: 20000, Seed: 3, P1: 300, P2: 1},
	"EXE": {Kind: gen.KExeX86, Len: 20000, Seed: 3}, "MM": {Kind: gen.KWav, Len: 20000, Seed: 3, P1: 1},
	"DNA": {Kind: gen.KDNA, Len: 20000, Seed: 3}, "PACK": {Kind: gen.KSmallAlpha, Len: 20000, Seed: 3, P1: 5},
	"RLT": {Kind: gen.KRuns, Len: 20000, Seed: 3, P1: 1}, "ZRLT": {Kind: gen.KRuns, Len: 20000, Seed: 3, P1: 1},
}

func c15Data(chain string) gen.Recipe {
	for _, n := range chainNames(chain) {
		if d, ok := c15DataFor[n]; ok {
			return d
		}
	}
	return gen.Recipe{Kind: gen.KText, Len: 20000, Seed: 5, P1: 1}
}

func TestC15(t *testing.T) {
	r := start(t, "C15")
	for _, p := range r.ReplayFiles() {
		ff, err := vrt.LoadFail(p)
		if err != nil {
			t.Fatalf("unreadable replay file %s: %v", p, err)
		}
		var c C15Case
		if err := json.Unmarshal(ff.Case, &c); err != nil {
			t.Fatalf("bad case in %s: %v", p, err)
		}
		if o := c15Eval(r, c); o.msg != "" {
			if o.known != "" && r.KnownOpen(o.known) {
				r.KnownLine(o.known + " " + firstLine(o.msg))
				continue
			}
			r.RecordFailure("names", c, p, o.msg)
			t.Fatalf("replay %s: %s", p, o.msg)
		}
		r.Label("replayed")
	}
	if r.ReplayOnly() {
		return
	}
	failNow := func(c C15Case, msg string) {
		if r.Survey() {
			r.Violation(t, "names", c, "%s", msg)
			return
		}
		r.RecordFailure("names", c, "", msg)
		t.Fatalf("C15 violated: %s", msg)
	}
	// (a) exhaustive: every single name x 4 spellings through the full Writer/Reader path,
	// paired with partner codecs on data that exercises the variant-specific code
	idx := 0
	for _, tr := range gen.TransformNames {
		for mode := 0; mode < 4; mode++ {
			for _, en := range []string{"HUFFMAN", "ANS1"} {
				for _, hl := range []bool{false, true} {
					idx++
					if !r.Mine(idx) {
						continue
					}
					c := C15Case{Transform: respell(tr, mode, 0), Entropy: respell(en, (mode+1)%4, 0), Headerless: hl, Data: c15Data(tr), BlockSize: 8192}
					if hl {
						c.ReaderTransform, c.ReaderEntropy = respell(tr, (mode+2)%4, 0), respell(en, (mode+3)%4, 0)
					}
					if o := c15Eval(r, c); o.msg != "" {
						failNow(c, o.msg)
					}
				}
			}
		}
	}
	for _, en := range gen.EntropyNames {
		for mode := 0; mode < 4; mode++ {
			for _, tr := range []string{"NONE", "LZ", "TEXT"} {
				for _, hl := range []bool{false, true} {
					idx++
					if !r.Mine(idx) {
						continue
					}
					c := C15Case{Transform: respell(tr, (mode+1)%4, 0), Entropy: respell(en, mode, 0), Headerless: hl, Data: c15Data(tr), BlockSize: 8192}
					if hl {
						c.ReaderEntropy = respell(en, (mode+2)%4, 0)
					}
					if o := c15Eval(r, c); o.msg != "" {
						failNow(c, o.msg)
					}
				}
			}
		}
	}
	r.SetExhaustive("single names x 4 spellings x {header, headerless} through Writer/Reader", true)
	// (b) exhaustive name laws: all chains of length <= 3 (19^3) in two spellings
	for i, a := range gen.TransformNames {
		if !r.Mine(i) {
			continue
		}
		for _, b := range gen.TransformNames {
			for _, c3 := range gen.TransformNames {
				for mode := 0; mode < 3; mode += 2 {
					chain := a + "+" + b + "+" + c3
					c := C15Case{Transform: respell(chain, mode, 0), Entropy: "none", LawsOnly: true}
					if o := c15Eval(r, c); o.msg != "" {
						failNow(c, o.msg)
					}
				}
			}
		}
	}
	r.SetExhaustive("name laws on all chains of length 3 (incl. NONE fillers) x 2 spellings", true)
	// (c) all length-2 chains through the stream path (thorough)
	if r.Thorough() {
		idx = 0
		for _, a := range gen.TransformNames {
			for _, b := range gen.TransformNames {
				for mode := 0; mode < 4; mode += 3 {
					idx++
					if !r.Mine(idx) {
						continue
					}
					chain := a + "+" + b
					c := C15Case{Transform: respell(chain, mode, 0), Entropy: respell("ANS0", mode, 0), Data: c15Data(chain), BlockSize: 8192}
					if o := c15Eval(r, c); o.msg != "" {
						failNow(c, o.msg)
					}
				}
			}
		}
		r.SetExhaustive("all chains of length 2 x 2 spellings through Writer/Reader", true)
	}
	// (e) every ordered pair of transforms: the chain must equal the composition of its stages (two data sets, a fast
	// and a slow entropy name, which select TEXT/RLT variants); thorough adds rapid-drawn chains of 3..5 stages
	idx = 0
	for _, a := range gen.TransformNames[1:] {
		for _, b := range gen.TransformNames[1:] {
			for k := 0; k < 2; k++ {
				idx++
				if !r.Mine(idx) || r.Failed() {
					continue
				}
				chain := a + "+" + b
				c := C15Case{Transform: chain, Entropy: []string{"NONE", "FPAQ"}[(idx/2)%2], Compose: true, Data: c15Data(chain)}
				if k == 1 {
					c.Data = c15Data(b + "+" + a)
				}
				r.Label("directed:pair-composition")
				if o := c15Eval(r, c); o.msg != "" {
					if o.known != "" && r.KnownOpen(o.known) {
						r.Excluded(o.known)
						continue
					}
					failNow(c, o.msg)
				}
			}
		}
	}
	r.SetExhaustive("all ordered pairs of transforms: chain == composition of its stages", true)
	r.Rapid(t, "chain-composition", 300, 20000, func(t *rapid.T) {
		n := rapid.IntRange(2, 5).Draw(t, "n")
		parts := make([]string, n)
		for i := range parts {
			parts[i] = rapid.SampledFrom(gen.TransformNames[1:]).Draw(t, "stage")
		}
		chain := strings.Join(parts, "+")
		c := C15Case{Transform: chain, Entropy: gen.DrawEntropy(t, true, "entropy"), Compose: true}
		c.Data = gen.DrawRecipe(t, 40000, "data")
		if rapid.Bool().Draw(t, "affine") {
			c.Data = c15Data(parts[rapid.IntRange(0, n-1).Draw(t, "affstage")])
		}
		if o := c15Eval(r, c); o.msg != "" {
			if o.known != "" && r.KnownOpen(o.known) {
				r.Excluded(o.known)
				return
			}
			r.Violation(t, "names", c, "%s", o.msg)
		}
	})
	// (d) rapid: chains up to 8 with NONE fillers and random case masks
	r.Rapid(t, "random-chains", 500, 12000, func(t *rapid.T) {
		chain := gen.DrawChain(t, 8, "chain")
		en := gen.DrawEntropy(t, false, "entropy")
		mask := rapid.Uint64().Draw(t, "mask")
		c := C15Case{Transform: respell(chain, 4, mask), Entropy: respell(en, 4, mask>>7), Headerless: rapid.IntRange(0, 3).Draw(t, "hl") == 0,
			BlockSize: gen.DrawBlockSize(t, 16384, "bs")}
		if c.Headerless && rapid.Bool().Draw(t, "rspell") {
			c.ReaderTransform, c.ReaderEntropy = respell(chain, 4, mask>>13), respell(en, 4, mask>>29)
		}
		c.Data = gen.DrawRecipe(t, 3*int(c.BlockSize), "data")
		if rapid.Bool().Draw(t, "affine") {
			c.Data = c15Data(chain)
		}
		if o := c15Eval(r, c); o.msg != "" {
			r.Violation(t, "names", c, "%s", o.msg)
		}
	})
}
