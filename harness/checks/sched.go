//go:build verif

package checks

import (
	"errors"
	"fmt"
	"sort"
	"sync/atomic"
	"time"

	kio "github.com/flanglet/kanzi-go/v2/io"
)

// Hook points of the verif build (see v2/io/CompressedStream.go).
const (
	pSTART      = 0 // task started
	pPREWAIT    = 1 // encode: about to enter the wait loop (decode enters it right after start)
	pSPIN       = 2 // inside the wait loop, counter observed != id-1
	pACQ        = 3 // token acquired
	pCANCELSEEN = 4 // left the wait loop on the cancel value
	pIOBEGIN    = 5 // about to use the shared bitstream
	pIOEND      = 6 // done with the shared bitstream
	pPUBLISH    = 7 // deferred handler, about to publish id or cancel
	pEXIT       = 8 // deferred handler, published; about to wg.Done
	pPUBLISHED  = 9 // decode only: id published right after the shared read
)

var pnames = []string{"start", "prewait", "spin", "acq", "cancelseen", "iobegin", "ioend", "publish", "exit", "published"}

// schedEvt is a task parked at a hook point.
type schedEvt struct {
	side, point int
	owner       *int32
	id, obs     int32
	resume      chan bool // true => panic here (injected task failure)
}

// Fault makes task ID panic at hook point Point.
type Fault struct {
	ID    int32 `json:"id"`
	Point int   `json:"point"`
}

// TraceEvt is one entry of the recorded trace.
type TraceEvt struct {
	ID    int32
	Point int
	// Counter value observed right after the event was received (the task is parked, so it is stable)
	Counter int32
}

// Sched owns the schedule of the tasks of one batch.
type Sched struct {
	ch       chan *schedEvt
	Trace    []TraceEvt
	fault    *Fault
	Fired    bool
	choose   func(n int) int
	Choices  int  // number of branching decisions with more than one enabled task
	Early    bool // the enclosing call returned while tasks were still alive
	Steps    int
	MaxSteps int
	// OnState, when set, receives a hash of the global protocol state (shared counter + point and observed
	// value of every parked task) each time all live tasks are parked, i.e. before every scheduling decision
	OnState func(h uint64)
	// BranchAfterPublish widens the enumeration (see branching)
	BranchAfterPublish bool
}

var errInjected = errors.New("injected task failure")

func (s *Sched) hook(side, point int, owner *int32, id, obs int32) {
	e := &schedEvt{side, point, owner, id, obs, make(chan bool)}
	s.ch <- e
	if <-e.resume {
		panic(errInjected)
	}
}

func (s *Sched) rec(e *schedEvt) {
	s.Trace = append(s.Trace, TraceEvt{ID: e.id, Point: e.point, Counter: atomic.LoadInt32(e.owner)})
}

// TraceString renders the trace compactly.
func (s *Sched) TraceString() string {
	out := ""
	for i, t := range s.Trace {
		if i > 0 {
			out += " "
		}
		out += fmt.Sprintf("%d:%s", t.ID, pnames[t.Point])
	}
	return out
}

// ErrSchedStuck reports a task that was released and neither parked again nor exited.
var ErrSchedStuck = errors.New("released task never reached its next hook point")

// Run drives op (which must spawn exactly n tasks of one batch, ids first+1..first+n) to
// completion under the schedule. It returns deadlock=true when every live task is parked
// in the wait loop and none can make progress, livelock=true when the step bound is hit.
func (s *Sched) Run(n int, op func()) (deadlock, livelock bool, err error) {
	if s.MaxSteps == 0 {
		s.MaxSteps = 4000 + 2000*n
	}
	done := make(chan struct{})
	kio.VerifHook = s.hook
	defer func() { kio.VerifHook = nil }()
	go func() { op(); close(done) }()
	parked := map[int32]*schedEvt{}
	live := 0
	recv := func() (*schedEvt, error) {
		select {
		case e := <-s.ch:
			return e, nil
		case <-time.After(60 * time.Second):
			return nil, ErrSchedStuck
		}
	}
	// collectBatch waits for the n start events of the next batch; finished=true when the
	// enclosing call returned instead.
	collectBatch := func() (finished bool, err error) {
		for got := 0; got < n; {
			select {
			case e := <-s.ch:
				parked[e.id] = e
				live++
				got++
				s.rec(e)
			case <-done:
				if got == 0 {
					return true, nil
				}
				return false, fmt.Errorf("the enclosing call returned while %d freshly started tasks were parked", got)
			case <-time.After(60 * time.Second):
				if got == 0 {
					return false, errors.New("the enclosing call neither returned nor started a new batch")
				}
				// a batch smaller than n (writer with fewer buffered blocks): go on with what started
				return false, nil
			}
		}
		return false, nil
	}
	branching := func(e *schedEvt) bool {
		switch e.point {
		case pPREWAIT, pSPIN, pPUBLISH:
			return true
		case pSTART:
			return e.side == 1 // decode enters the wait loop right after start
		case pIOEND:
			return e.side == 1 // decode publishes right after the shared read
		case pPUBLISHED:
			// decode, right after publishing: the real code does not touch the counter again from here, so this is
			// not a conflict point of the protocol as written - but a change that adds such an access (a re-read of
			// the counter for the range test, say) would hide behind the reduction. Plans that ask for it let the
			// successor overtake here too.
			return s.BranchAfterPublish
		}
		return false
	}
	step := func(id int32) error {
		e := parked[id]
		delete(parked, id)
		inject := s.fault != nil && !s.Fired && s.fault.ID == id && s.fault.Point == e.point
		if inject {
			s.Fired = true
		}
		s.Steps++
		e.resume <- inject
		if e.point == pEXIT {
			live--
			return nil
		}
		ne, err := recv()
		if err != nil {
			return err
		}
		if ne.id != id {
			return fmt.Errorf("event from task %d while task %d was released", ne.id, id)
		}
		parked[id] = ne
		s.rec(ne)
		return nil
	}
	for {
		if live == 0 {
			finished, err := collectBatch()
			if err != nil {
				return false, false, err
			}
			if finished {
				return false, false, nil
			}
		}
		for live > 0 {
			select {
			case <-done:
				s.Early = true
			default:
			}
			if s.Steps > s.MaxSteps {
				return false, true, nil
			}
			if s.OnState != nil {
				s.OnState(stateHash(parked))
			}
			// advance tasks parked at non-branching points, in id order
			var nb []int32
			for id, e := range parked {
				if !branching(e) {
					nb = append(nb, id)
				}
			}
			if len(nb) > 0 {
				sort.Slice(nb, func(i, j int) bool { return nb[i] < nb[j] })
				if err := step(nb[0]); err != nil {
					return false, false, err
				}
				continue
			}
			var en []int32
			for id, e := range parked {
				if e.point == pSPIN && atomic.LoadInt32(e.owner) == e.obs {
					continue // would observe the same value again: not enabled
				}
				en = append(en, id)
			}
			if len(en) == 0 {
				// release the parked tasks so that goroutines do not leak forever? They would spin: leave them.
				return true, false, nil
			}
			sort.Slice(en, func(i, j int) bool { return en[i] < en[j] })
			c := 0
			if len(en) > 1 {
				c = s.choose(len(en))
				s.Choices++
			}
			if err := step(en[c]); err != nil {
				return false, false, err
			}
		}
	}
}

// stateHash hashes the global protocol state: all live tasks are parked, so the counter is stable.
func stateHash(parked map[int32]*schedEvt) uint64 {
	ids := make([]int32, 0, len(parked))
	for id := range parked {
		ids = append(ids, id)
	}
	sort.Slice(ids, func(i, j int) bool { return ids[i] < ids[j] })
	h := uint64(1469598103934665603)
	mix := func(v uint64) {
		for i := 0; i < 8; i++ {
			h ^= v >> (8 * uint(i)) & 0xFF
			h *= 1099511628211
		}
	}
	for i, id := range ids {
		e := parked[id]
		if i == 0 {
			mix(uint64(uint32(atomic.LoadInt32(e.owner))))
		}
		mix(uint64(uint32(id)))
		mix(uint64(e.point))
		if e.point == pSPIN {
			mix(uint64(uint32(e.obs)))
		}
	}
	return h
}

// Monitor is the executable model of the hand-off protocol: it accepts or rejects a trace.
// failed lists the tasks that failed (injected or data-caused).
func Monitor(side int, trace []TraceEvt, first int32) string {
	holder := int32(-1)
	last := first
	cancelled := false
	exited := map[int32]bool{}
	started := map[int32]bool{}
	for i, t := range trace {
		switch t.Point {
		case pSTART:
			started[t.ID] = true
		case pACQ:
			if cancelled {
				return fmt.Sprintf("clause 4 (prompt stop): task %d acquired the stream at step %d after a cancellation had been published", t.ID, i)
			}
		case pIOBEGIN:
			if holder != -1 {
				return fmt.Sprintf("clause 1 (mutual exclusion): task %d enters the shared stream while task %d is inside", t.ID, holder)
			}
			if t.ID != last+1 {
				return fmt.Sprintf("clause 2 (order): task %d uses the shared stream after task %d", t.ID, last)
			}
			holder = t.ID
			last = t.ID
		case pIOEND:
			if holder == t.ID {
				holder = -1
			}
		case pEXIT:
			if holder == t.ID {
				holder = -1
			}
			exited[t.ID] = true
			if t.Counter == -1 {
				cancelled = true
			}
		}
	}
	for id := range started {
		if !exited[id] {
			return fmt.Sprintf("clause 3 (termination): task %d started but never reached its exit", id)
		}
	}
	return ""
}

// dfsEnumerate runs mk/check for every schedule (modulo the reduction) of one fault plan.
// It returns the number of executions, whether the enumeration was complete, and the first
// violation with the choice sequence that produced it.
func dfsEnumerate(n int, fault *Fault, capExec int, exec func(s *Sched) string, onExec func(s *Sched)) (execs int, complete bool, msg string, choices []int) {
	prefix := []int{}
	for {
		var alts, taken []int
		s := &Sched{ch: make(chan *schedEvt), fault: fault}
		s.choose = func(k int) int {
			c := 0
			if len(taken) < len(prefix) {
				c = prefix[len(taken)]
			}
			if c >= k {
				c = k - 1
			}
			taken = append(taken, c)
			alts = append(alts, k)
			return c
		}
		m := exec(s)
		execs++
		if onExec != nil {
			onExec(s)
		}
		if m != "" {
			return execs, false, m, taken
		}
		i := len(taken) - 1
		for i >= 0 && taken[i]+1 >= alts[i] {
			i--
		}
		if i < 0 {
			return execs, true, "", nil
		}
		if execs >= capExec {
			return execs, false, "", nil
		}
		prefix = append(append([]int{}, taken[:i]...), taken[i]+1)
	}
}

// replaySchedule runs one execution with a fixed choice sequence (missing choices default to 0).
func replaySchedule(fault *Fault, choices []int, exec func(s *Sched) string) string {
	i := 0
	s := &Sched{ch: make(chan *schedEvt), fault: fault}
	s.choose = func(k int) int {
		c := 0
		if i < len(choices) {
			c = choices[i]
		}
		i++
		if c >= k {
			c = k - 1
		}
		return c
	}
	return exec(s)
}
