package checks

import (
	"bytes"
	"encoding/json"
	"fmt"
	"io"
	"testing"

	kio "github.com/flanglet/kanzi-go/v2/io"
	"pgregory.net/rapid"

	"verif/harness/fio"
	"verif/harness/gen"
	"verif/harness/vrt"
)

// LifeOp is one API call of a history. K: write, close, getwritten, arm (writer);
// read, close, getread (reader).
type LifeOp struct {
	K string `json:"k"`
	N int    `json:"n,omitempty"`
}

// C17Case: a Writer history, then a Reader history over the produced stream.
type C17Case struct {
	Cfg   gen.Config `json:"cfg"`
	Seed  uint64     `json:"seed"`
	WOps  []LifeOp   `json:"wops"`
	ROps  []LifeOp   `json:"rops"`
	RJobs uint       `json:"rjobs"`
	// reader over an unhealthy source (the counters must stay monotone whatever happens to the source)
	RCut      int   `json:"rcut,omitempty"`       // > 0: the source ends after RCut % (len+1) bytes of the stream (truncation)
	RFailAt   int   `json:"rfail_at,omitempty"`   // > 0: the RFailAt-th underlying source read fails once
	RSrcSizes []int `json:"rsrc_sizes,omitempty"` // sizes of the pieces the source delivers (last repeats)
}

type c17Out struct {
	msg        string
	nontrivial bool
	faults     int
}

func runC17(r *vrt.Run, c C17Case) (o c17Out) {
	r.Inflight("lifecycle", c)
	defer r.InflightDone()
	bs := int(c.Cfg.BlockSize)
	// the data source: a long deterministic text, consumed sequentially by the writes
	total := 0
	for _, op := range c.WOps {
		if op.K == "write" {
			total += op.N
		}
	}
	pool := gen.Recipe{Kind: gen.KText, Len: total + 16, Seed: c.Seed}.Expand()
	sink := &fio.Sink{FailWrite: map[int]bool{}, FailClose: map[int]bool{}}
	var w *kio.Writer
	var err error
	if e := guard(func() error {
		w, err = kio.NewWriter(sink, c.Cfg.Transform, c.Cfg.Entropy, c.Cfg.BlockSize, c.Cfg.Jobs, c.Cfg.Checksum, c.Cfg.Hint, false)
		return nil
	}); e != nil || err != nil {
		o.msg = fmt.Sprintf("writer construction failed: %v %v", e, err)
		return
	}
	var accepted []byte
	closed := false      // a Close returned nil
	errReported := false // some call returned an error after a fault
	off := 0
	lastWritten := uint64(0)
	opsAfterClose, zeroLen, crossBatch := 0, 0, false
	for i, op := range c.WOps {
		where := fmt.Sprintf("writer op %d (%s %d)", i, op.K, op.N)
		firedBefore := sink.Fired
		switch op.K {
		case "arm":
			// the next underlying Write of the sink fails once
			sink.FailWrite[sink.Writes+1] = true
		case "armclose":
			sink.FailClose[sink.Closes+1] = true
		case "write":
			data := pool[off : off+op.N]
			sinkLen := len(sink.Data)
			var n int
			var e error
			if pe := guard(func() error { n, e = w.Write(data); return nil }); pe != nil {
				o.msg = where + ": " + pe.Error()
				return
			}
			if op.N == 0 {
				zeroLen++
			}
			if closed {
				opsAfterClose++
				if e == nil || n != 0 {
					o.msg = fmt.Sprintf("%s: Write after a successful Close returned (%d, %v); expected (0, error)", where, n, e)
					return
				}
				if len(sink.Data) != sinkLen {
					o.msg = where + ": Write after Close changed the bytes at the sink"
					return
				}
				break
			}
			if n < 0 || n > op.N {
				o.msg = fmt.Sprintf("%s: Write returned count %d", where, n)
				return
			}
			if e == nil && n != op.N {
				o.msg = fmt.Sprintf("%s: Write returned (%d, nil) for %d bytes: short count without error", where, n, op.N)
				return
			}
			if e != nil && sink.Fired == firedBefore && !errReported && sink.Fired == 0 {
				o.msg = fmt.Sprintf("%s: Write failed on a healthy sink: %v", where, e)
				return
			}
			if e != nil {
				errReported = true
			}
			if op.N > int(c.Cfg.Jobs)*bs {
				crossBatch = true
			}
			accepted = append(accepted, data[:n]...)
			off += op.N
		case "close":
			var e error
			sinkLen := len(sink.Data)
			if pe := guard(func() error { e = w.Close(); return nil }); pe != nil {
				o.msg = where + ": " + pe.Error()
				return
			}
			if closed {
				opsAfterClose++
				if e != nil {
					o.msg = fmt.Sprintf("%s: repeated Close returned %v (must be idempotent)", where, e)
					return
				}
				if len(sink.Data) != sinkLen {
					o.msg = where + ": repeated Close wrote more bytes to the sink (must be idempotent)"
					return
				}
				break
			}
			if e != nil {
				if sink.Fired == 0 {
					o.msg = fmt.Sprintf("%s: Close failed on a healthy sink: %v", where, e)
					return
				}
				errReported = true
				break
			}
			closed = true
			// success reported: every byte must have reached the sink
			ref, rerr := Compress(accepted, c.Cfg, nil)
			if rerr != nil {
				o.msg = where + ": reference compression of the accepted data failed: " + rerr.Error()
				return
			}
			if !bytes.Equal(sink.Data, ref) {
				o.msg = fmt.Sprintf("%s: Close reported success but the sink holds %d bytes that differ from the stream of the %d accepted bytes (%d bytes, first difference at %d); %d injected sink faults fired before",
					where, len(sink.Data), len(accepted), len(ref), firstDiff(sink.Data, ref), sink.Fired)
				return
			}
			if gw := w.GetWritten(); gw != uint64(len(sink.Data)) {
				o.msg = fmt.Sprintf("%s: after a successful Close GetWritten() = %d but the sink received %d bytes (%d injected faults fired before)", where, gw, len(sink.Data), sink.Fired)
				return
			}
		case "getwritten":
			if closed {
				opsAfterClose++
			}
		}
		var gw uint64
		if pe := guard(func() error { gw = w.GetWritten(); return nil }); pe != nil {
			o.msg = where + ": GetWritten: " + pe.Error()
			return
		}
		if gw < lastWritten && sink.Fired == 0 {
			o.msg = fmt.Sprintf("%s: GetWritten went backwards: %d after %d", where, gw, lastWritten)
			return
		}
		lastWritten = gw
	}
	o.faults = sink.Fired
	o.nontrivial = (opsAfterClose > 0 || zeroLen > 0) && crossBatch
	if !closed {
		return
	}
	// the produced stream must decode to the accepted data (empty stream -> empty output + EOF)
	stream := sink.Data
	src := fio.NewSource(stream)
	unhealthy := false
	if c.RCut > 0 {
		src.Data = stream[:c.RCut%(len(stream)+1)]
		unhealthy = len(src.Data) < len(stream)
	}
	if c.RFailAt > 0 {
		src.FailRead = map[int]bool{c.RFailAt: true}
		unhealthy = true
	}
	src.Sizes = c.RSrcSizes
	rd, err := kio.NewReader(src, max(c.RJobs, 1))
	if err != nil {
		if unhealthy {
			return
		}
		o.msg = "reader construction failed: " + err.Error()
		return
	}
	pos := 0
	rclosed := false
	atEOF := false
	lastRead := uint64(0)
	sawSrcErr := false
	rops := append(append([]LifeOp(nil), c.ROps...), LifeOp{K: "read", N: len(accepted) + 10}, LifeOp{K: "read", N: 5}, LifeOp{K: "close"}, LifeOp{K: "read", N: 3}, LifeOp{K: "close"})
	for i, op := range rops {
		where := fmt.Sprintf("reader op %d (%s %d)", i, op.K, op.N)
		switch op.K {
		case "read":
			buf := make([]byte, op.N)
			var n int
			var e error
			if pe := guard(func() error { n, e = rd.Read(buf); return nil }); pe != nil {
				o.msg = where + ": " + pe.Error()
				return
			}
			if rclosed {
				if e == nil || e == io.EOF && false || n != 0 {
					o.msg = fmt.Sprintf("%s: Read after Close returned (%d, %v); expected (0, error)", where, n, e)
					return
				}
				break
			}
			if n < 0 || n > op.N || !bytes.Equal(buf[:n], accepted[pos:min(len(accepted), pos+n)]) || pos+n > len(accepted) {
				o.msg = fmt.Sprintf("%s: returned %d bytes that do not continue the original at offset %d", where, n, pos)
				return
			}
			pos += n
			if e == io.EOF {
				if pos != len(accepted) {
					o.msg = fmt.Sprintf("%s: end of stream reported after %d of %d bytes", where, pos, len(accepted))
					return
				}
				atEOF = true
			} else if e != nil {
				if !unhealthy {
					o.msg = fmt.Sprintf("%s: error on a valid stream: %v", where, e)
					return
				}
				sawSrcErr = true
			} else if atEOF && op.N > 0 {
				o.msg = fmt.Sprintf("%s: Read returned (%d, nil) after end of stream had been reported (EOF must be stable)", where, n)
				return
			}
		case "close":
			var e error
			if pe := guard(func() error { e = rd.Close(); return nil }); pe != nil {
				o.msg = where + ": " + pe.Error()
				return
			}
			if e != nil {
				o.msg = fmt.Sprintf("%s: Close returned %v", where, e)
				return
			}
			rclosed = true
		}
		var gr uint64
		if pe := guard(func() error { gr = rd.GetRead(); return nil }); pe != nil {
			o.msg = where + ": GetRead: " + pe.Error()
			return
		}
		if !rclosed {
			if gr < lastRead {
				o.msg = fmt.Sprintf("%s: GetRead went backwards: %d after %d (source healthy: %v)", where, gr, lastRead, !unhealthy)
				return
			}
			if gr > uint64(len(stream)) {
				o.msg = fmt.Sprintf("%s: GetRead() = %d exceeds the stream length %d", where, gr, len(stream))
				return
			}
			lastRead = gr
		}
	}
	if unhealthy {
		o.nontrivial = o.nontrivial || sawSrcErr
		return
	}
	earlyClose := false
	for _, op := range c.ROps {
		if op.K == "close" {
			earlyClose = true
		}
	}
	if !atEOF && !earlyClose {
		o.msg = "the reader never reported end of stream"
	}
	return
}

func c17Eval(r *vrt.Run, c C17Case) c17Out {
	o := runC17(r, c)
	fl := "faults:none"
	if o.faults > 0 {
		fl = "faults:fired"
	}
	r.Eval(vrt.HashOf(c), o.nontrivial, fl, "wjobs:"+jobsClass(c.Cfg.Jobs), "entropy:"+c.Cfg.Entropy)
	if o.nontrivial && r.WantSample() {
		r.Sample(map[string]any{"cfg": c.Cfg.String(), "writer_ops": c.WOps, "reader_ops": c.ROps, "faults_fired": o.faults})
	}
	return o
}

func drawC17(t *rapid.T, withFaults bool) C17Case {
	var c C17Case
	c.Cfg = gen.Config{Transform: rapid.SampledFrom([]string{"NONE", "LZ", "RLT+ZRLT", "TEXT", "BWT"}).Draw(t, "tr"),
		Entropy:   rapid.SampledFrom([]string{"NONE", "HUFFMAN", "ANS0", "FPAQ"}).Draw(t, "en"),
		BlockSize: gen.DrawBlockSize(t, 4096, "bs"), Jobs: uint(rapid.IntRange(1, 4).Draw(t, "jobs")),
		Checksum: rapid.SampledFrom([]uint{0, 32, 64}).Draw(t, "ck"), HintClass: "absent"}
	bs := int(c.Cfg.BlockSize)
	j := int(c.Cfg.Jobs)
	c.Seed = rapid.Uint64Range(0, 1000).Draw(t, "seed")
	sizes := rapid.OneOf(rapid.Just(0), rapid.Just(1), rapid.IntRange(bs-1, bs+1), rapid.Just(j*bs), rapid.IntRange(j*bs+1, (j+2)*bs), rapid.IntRange(0, 3*bs),
		rapid.IntRange(260*1024, 300*1024)) // more than the 256 KiB bitstream buffer: several underlying writes
	n := rapid.IntRange(1, 10).Draw(t, "nw")
	closedAt := rapid.IntRange(0, n).Draw(t, "closeAt")
	for i := 0; i < n; i++ {
		if i == closedAt {
			if withFaults && rapid.IntRange(0, 2).Draw(t, "armc") == 0 {
				c.WOps = append(c.WOps, LifeOp{K: rapid.SampledFrom([]string{"arm", "armclose"}).Draw(t, "armk")})
			}
			c.WOps = append(c.WOps, LifeOp{K: "close"})
		}
		switch rapid.IntRange(0, 9).Draw(t, "wk") {
		case 0:
			c.WOps = append(c.WOps, LifeOp{K: "close"})
		case 1:
			c.WOps = append(c.WOps, LifeOp{K: "getwritten"})
		case 2:
			if withFaults {
				c.WOps = append(c.WOps, LifeOp{K: "arm"})
			}
		default:
			c.WOps = append(c.WOps, LifeOp{K: "write", N: sizes.Draw(t, "wn")})
		}
	}
	c.WOps = append(c.WOps, LifeOp{K: "close"}, LifeOp{K: "close"}, LifeOp{K: "write", N: 10}, LifeOp{K: "getwritten"}, LifeOp{K: "close"})
	nr := rapid.IntRange(0, 8).Draw(t, "nr")
	for i := 0; i < nr; i++ {
		switch rapid.IntRange(0, 7).Draw(t, "rk") {
		case 0:
			c.ROps = append(c.ROps, LifeOp{K: "getread"})
		case 1:
			if rapid.IntRange(0, 3).Draw(t, "rclose") == 0 {
				c.ROps = append(c.ROps, LifeOp{K: "close"})
			}
		default:
			c.ROps = append(c.ROps, LifeOp{K: "read", N: rapid.OneOf(rapid.Just(0), rapid.Just(1), rapid.IntRange(bs-1, bs+1), rapid.IntRange(0, 4*bs)).Draw(t, "rn")})
		}
	}
	c.RJobs = uint(rapid.IntRange(1, 4).Draw(t, "rjobs"))
	return c
}

func TestC17(t *testing.T) {
	r := start(t, "C17")
	for _, p := range r.ReplayFiles() {
		ff, err := vrt.LoadFail(p)
		if err != nil {
			t.Fatalf("unreadable replay file %s: %v", p, err)
		}
		var c C17Case
		if err := json.Unmarshal(ff.Case, &c); err != nil {
			t.Fatalf("bad case in %s: %v", p, err)
		}
		if o := c17Eval(r, c); o.msg != "" {
			r.RecordFailure("lifecycle", c, p, o.msg)
			t.Fatalf("replay %s: %s", p, o.msg)
		}
		r.Label("replayed")
	}
	if r.ReplayOnly() {
		return
	}
	r.Rapid(t, "histories", 3000, 200000, func(t *rapid.T) {
		c := drawC17(t, false)
		if o := c17Eval(r, c); o.msg != "" {
			r.Violation(t, "lifecycle", c, "%s", o.msg)
		}
	})
	r.Rapid(t, "reader-histories-on-unhealthy-sources", 1500, 80000, func(t *rapid.T) {
		c := drawC17(t, false)
		// several reads, no early Close: the interesting part is what the counters do around the failure
		c.ROps = nil
		bs := int(c.Cfg.BlockSize)
		for i, n := 0, rapid.IntRange(2, 12).Draw(t, "nr2"); i < n; i++ {
			c.ROps = append(c.ROps, LifeOp{K: "read", N: rapid.OneOf(rapid.Just(1), rapid.IntRange(bs-1, bs+1), rapid.IntRange(1, 4*bs)).Draw(t, "rn2")})
		}
		switch rapid.IntRange(0, 2).Draw(t, "unhealthy") {
		case 0:
			c.RCut = rapid.IntRange(1, 1<<20).Draw(t, "rcut")
		case 1:
			c.RFailAt = rapid.IntRange(1, 12).Draw(t, "rfail")
		default:
			c.RCut = rapid.IntRange(1, 1<<20).Draw(t, "rcut")
			c.RFailAt = rapid.IntRange(1, 12).Draw(t, "rfail")
		}
		if rapid.Bool().Draw(t, "pieces") {
			// multiples of 8 keep the bitstream's short-read loop out of the way; other sizes exercise it
			c.RSrcSizes = rapid.SliceOfN(rapid.OneOf(rapid.SampledFrom([]int{8, 64, 1024, 4096, 32768}), rapid.IntRange(1, 5000)), 1, 6).Draw(t, "pieces")
		}
		if o := c17Eval(r, c); o.msg != "" {
			r.Violation(t, "lifecycle", c, "%s", o.msg)
		}
	})
	r.Rapid(t, "histories-with-transient-sink-faults", 2000, 100000, func(t *rapid.T) {
		c := drawC17(t, true)
		if o := c17Eval(r, c); o.msg != "" {
			r.Violation(t, "lifecycle", c, "%s", o.msg)
		}
	})
}
