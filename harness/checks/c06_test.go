package checks

import (
	"bytes"
	"encoding/json"
	"fmt"
	"os"
	"path/filepath"
	"testing"

	"pgregory.net/rapid"

	"verif/harness/fio"
	"verif/harness/gen"
	"verif/harness/vrt"
)

// C06Case: one stream decoded through a chunking source / written through split Writes.
type C06Case struct {
	Cfg         gen.Config `json:"cfg"`
	Data        gen.Recipe `json:"data"`
	SrcSizes    []int      `json:"src_sizes"`           // sizes of the successive short reads of the source (last repeats)
	ReadBufs    []int      `json:"read_bufs,omitempty"` // Read buffer lengths (last repeats)
	ReadJobs    uint       `json:"read_jobs"`
	WriteSizes  []int      `json:"write_sizes,omitempty"` // partition of the plain data into Write calls
	EOFWithData bool       `json:"eof_with_data,omitempty"`
	// Cut > 0: the compressed stream is truncated after Cut per mille of its bytes; what the reader delivers before it
	// reports the damage (and that it reports it) must not depend on the Read buffer lengths nor on the source's pieces
	Cut int `json:"cut,omitempty"`
}

type c06Out struct {
	msg        string
	nontrivial bool
	minPiece   int
	unaligned  int
}

func runC06(r *vrt.Run, c C06Case) (o c06Out) {
	data := c.Data.Expand()
	r.Inflight("granularity", c)
	defer r.InflightDone()
	// reference: single Write, always-filling source, big Read buffer
	ref, err := Compress(data, c.Cfg, nil)
	if err != nil {
		o.msg = "reference compression failed: " + err.Error()
		return
	}
	// encode side: the same data split across Write calls must give the same bytes
	if len(c.WriteSizes) > 0 {
		alt, err := Compress(data, c.Cfg, c.WriteSizes)
		if err != nil {
			o.msg = fmt.Sprintf("compression with Write sizes %v failed: %v", clipInts(c.WriteSizes, 8), err)
			return
		}
		if !bytes.Equal(alt, ref) {
			o.msg = fmt.Sprintf("compressed bytes depend on the Write partition %v: first difference at byte %d (lengths %d vs %d)", clipInts(c.WriteSizes, 8), firstDiff(alt, ref), len(alt), len(ref))
			return
		}
	}
	refOut, err := Decompress(ref, c.Cfg, c.ReadJobs, nil)
	if err != nil || !bytes.Equal(refOut, data) {
		// the unchunked round trip itself fails: not an I/O granularity matter (C01 owns it, e.g. known finding KF-14)
		r.Label("skipped:plain-roundtrip-fails")
		return
	}
	if c.Cut > 0 && len(ref) > 2 {
		cut := 1 + (len(ref)-2)*(c.Cut%1000)/1000
		drain := func(src *fio.Source, bufs []int) (out []byte, err error) {
			e := guard(func() error {
				rd, e := NewReaderFor(src, c.Cfg, c.ReadJobs)
				if e != nil {
					return fmt.Errorf("reader ctor: %w", e)
				}
				defer rd.Close()
				var e2 error
				out, e2 = Drain(rd, bufs)
				return e2
			})
			return out, e
		}
		outA, errA := drain(fio.NewSource(ref[:cut]), nil)
		srcB := &fio.Source{Data: ref[:cut], Sizes: c.SrcSizes, EOFWithData: c.EOFWithData}
		outB, errB := drain(srcB, c.ReadBufs)
		o.minPiece, o.unaligned = srcB.MinPiece, srcB.Unaligned
		o.nontrivial = len(data) >= 64 && (srcB.Unaligned > 0 || len(c.ReadBufs) > 0)
		if isPanic(errA) || isPanic(errB) {
			o.msg = fmt.Sprintf("stream truncated at %d/%d bytes: Read faulted: %v / %v", cut, len(ref), errA, errB)
			return
		}
		if (errA == nil) != (errB == nil) {
			o.msg = fmt.Sprintf("stream truncated at %d/%d bytes: read in one piece with 64 KiB buffers the reader ends with %v, read through pieces %v with buffers %v it ends with %v", cut, len(ref), errA, clipInts(c.SrcSizes, 8), clipInts(c.ReadBufs, 8), errB)
			return
		}
		if len(outA) != len(outB) || !bytes.Equal(outA, outB) {
			o.msg = fmt.Sprintf("stream truncated at %d/%d bytes: %d bytes are delivered before the error with 64 KiB buffers from an always-filling source, %d bytes with buffers %v and source pieces %v: the result depends on the I/O granularity", cut, len(ref), len(outA), len(outB), clipInts(c.ReadBufs, 8), clipInts(c.SrcSizes, 8))
		}
		return
	}
	// decode side: chunking source + drawn Read buffer lengths
	src := &fio.Source{Data: ref, Sizes: c.SrcSizes, EOFWithData: c.EOFWithData}
	var out []byte
	err = guard(func() error {
		rd, e := NewReaderFor(src, c.Cfg, c.ReadJobs)
		if e != nil {
			return fmt.Errorf("reader ctor: %w", e)
		}
		defer rd.Close()
		var e2 error
		out, e2 = Drain(rd, c.ReadBufs)
		return e2
	})
	o.minPiece, o.unaligned = src.MinPiece, src.Unaligned
	o.nontrivial = src.Unaligned > 0 && len(data) >= 64
	if err != nil {
		o.msg = fmt.Sprintf("decoding through a source delivering pieces %v failed after %d/%d bytes: %v", clipInts(c.SrcSizes, 8), len(out), len(data), err)
		return
	}
	if !bytes.Equal(out, data) {
		o.msg = fmt.Sprintf("decoding through a source delivering pieces %v returned different bytes: %d vs %d, first difference at %d", clipInts(c.SrcSizes, 8), len(out), len(data), firstDiff(out, data))
	}
	return
}

func c06Eval(r *vrt.Run, c C06Case) c06Out {
	o := runC06(r, c)
	mp := "minpiece:>=64"
	switch {
	case o.minPiece == 0:
		mp = "minpiece:none"
	case o.minPiece == 1:
		mp = "minpiece:1"
	case o.minPiece < 8:
		mp = "minpiece:2-7"
	case o.minPiece < 64:
		mp = "minpiece:8-63"
	}
	ws := "writes:single"
	if len(c.WriteSizes) > 0 {
		ws = "writes:split"
	}
	r.Eval(vrt.HashOf(c), o.nontrivial, mp, ws, "entropy:"+c.Cfg.Entropy, "len:"+sizeClass(c.Data.Len), "rjobs:"+jobsClass(c.ReadJobs))
	if o.nontrivial && r.WantSample() {
		r.Sample(map[string]any{"cfg": c.Cfg.String(), "data": c.Data.String(), "src_sizes": clipInts(c.SrcSizes, 10), "read_bufs": clipInts(c.ReadBufs, 8),
			"write_sizes": clipInts(c.WriteSizes, 8), "unaligned_deliveries": o.unaligned, "min_piece": o.minPiece})
	}
	return o
}

var pieceGen = rapid.OneOf(rapid.Just(1), rapid.IntRange(2, 9), rapid.Just(13), rapid.IntRange(63, 65),
	rapid.SampledFrom([]int{3, 5, 7, 11, 17, 31, 127, 251, 509, 1021}), rapid.IntRange(4095, 4097), rapid.IntRange(1, 70000))

func drawC06(t *rapid.T, maxBlock, maxTotal int) C06Case {
	var c C06Case
	c.Cfg = gen.DrawConfig(t, gen.ConfigOpts{MaxBlock: maxBlock, MaxJobs: 8})
	bs := int(c.Cfg.BlockSize)
	maxLen := min(maxTotal, (int(c.Cfg.Jobs)+2)*bs)
	if c.Cfg.Entropy == "TPAQ" || c.Cfg.Entropy == "TPAQX" || c.Cfg.Entropy == "CM" {
		maxLen = min(maxLen, 64*1024, 3*bs)
	}
	c.Data = gen.DrawRecipe(t, maxLen, "data")
	c.Cfg.Hint, c.Cfg.HintClass = 0, "absent"
	if rapid.Bool().Draw(t, "hint") {
		c.Cfg.Hint, c.Cfg.HintClass = int64(c.Data.Len), "exact"
	}
	c.SrcSizes = rapid.SliceOfN(pieceGen, 1, 24).Draw(t, "srcSizes")
	if rapid.IntRange(0, 3).Draw(t, "const") == 0 {
		c.SrcSizes = c.SrcSizes[:1] // constant piece size
	}
	c.ReadJobs = gen.DrawJobs(t, 8, "readJobs")
	if rapid.Bool().Draw(t, "rbufs") {
		c.ReadBufs = rapid.SliceOfN(rapid.OneOf(rapid.IntRange(0, 9), rapid.IntRange(bs-1, bs+1), rapid.IntRange(1, 4*bs)), 1, 8).Draw(t, "readBufs")
		if c.ReadBufs[len(c.ReadBufs)-1] == 0 {
			c.ReadBufs = append(c.ReadBufs, 777)
		}
	}
	if rapid.Bool().Draw(t, "split") {
		c.WriteSizes = rapid.SliceOfN(rapid.OneOf(rapid.IntRange(0, 17), rapid.IntRange(bs-1, bs+1), rapid.IntRange(0, 3*bs)), 1, 12).Draw(t, "writeSizes")
	}
	c.EOFWithData = rapid.IntRange(0, 4).Draw(t, "eofWithData") == 0
	return c
}

func TestC06(t *testing.T) {
	r := start(t, "C06")
	for _, p := range r.ReplayFiles() {
		ff, err := vrt.LoadFail(p)
		if err != nil {
			t.Fatalf("unreadable replay file %s: %v", p, err)
		}
		var c C06Case
		if err := json.Unmarshal(ff.Case, &c); err != nil {
			t.Fatalf("bad case in %s: %v", p, err)
		}
		if o := c06Eval(r, c); o.msg != "" {
			r.RecordFailure("granularity", c, p, o.msg)
			t.Fatalf("replay %s: %s", p, o.msg)
		}
		r.Label("replayed")
	}
	if r.ReplayOnly() {
		return
	}
	r.Rapid(t, "truncated-stream-histories", 1200, 40000, func(t *rapid.T) {
		c := drawC06(t, 16384, 256*1024)
		c.WriteSizes = nil
		c.Cut = rapid.IntRange(1, 999).Draw(t, "cut")
		if len(c.ReadBufs) == 0 {
			c.ReadBufs = []int{rapid.SampledFrom([]int{1, 1000, 4096, 4097, 10000, 12288}).Draw(t, "rbuf")}
		}
		if o := c06Eval(r, c); o.msg != "" {
			r.Violation(t, "granularity", c, "%s", o.msg)
		}
	})
	r.Rapid(t, "histories", 4000, 120000, func(t *rapid.T) {
		c := drawC06(t, 32*1024, 256*1024)
		if o := c06Eval(r, c); o.msg != "" {
			r.Violation(t, "granularity", c, "%s", o.msg)
		}
	})
	// exhaustive constant piece sizes 1..64 on fixed streams
	nstreams := r.Pick(4, 20)
	idx := 0
	for s := 0; s < nstreams; s++ {
		cfg := gen.Config{Transform: []string{"LZ", "BWT", "TEXT+RLT", "NONE", "ROLZ"}[s%5], Entropy: []string{"HUFFMAN", "ANS0", "NONE", "FPAQ", "RANGE", "ANS1"}[s%6],
			BlockSize: uint(1024 + 16*(s*37%200)), Jobs: uint(1 + s%3), Checksum: []uint{0, 32, 64}[s%3], HintClass: "absent"}
		for piece := 1; piece <= 64; piece++ {
			idx++
			if !r.Mine(idx) {
				continue
			}
			c := C06Case{Cfg: cfg, Data: gen.Recipe{Kind: []int{gen.KText, gen.KRandom, gen.KRuns, gen.KDNA}[s%4], Len: 5000 + 777*s, Seed: uint64(s)},
				SrcSizes: []int{piece}, ReadJobs: uint(1 + (s+piece)%4)}
			if o := c06Eval(r, c); o.msg != "" {
				r.RecordFailure("granularity", c, "", o.msg)
				t.Fatalf("constant piece size %d: %s on %s", piece, o.msg, jsonOf(c))
			}
		}
	}
	r.SetExhaustive(fmt.Sprintf("constant piece sizes 1..64 x %d fixed streams", nstreams), true)
	// The command-line decompressor has its own read loop on top of Reader.Read (fixed 32 KiB requests) and can take the
	// compressed bytes from a pipe: the decoded file must not depend on how its buffer lines up with the block size
	// (any multiple of 16) and with the batch size (jobs x block size), nor on whether the input is a file or a pipe.
	if cliPath() != "" && !r.Failed() {
		work := filepath.Join(r.Out, fmt.Sprintf("cli-work-%d", r.Shard))
		defer os.RemoveAll(work)
		r.Rapid(t, "cli-read-loop", 32, 1200, func(t *rapid.T) {
			cfg := gen.DrawConfig(t, gen.ConfigOpts{MaxBlock: 131072, MaxJobs: 4})
			cfg.Headerless = false
			bs := int(cfg.BlockSize)
			ln := rapid.IntRange(1, 3*int(cfg.Jobs)*bs+bs).Draw(t, "len")
			if cfg.Entropy == "TPAQ" || cfg.Entropy == "TPAQX" || cfg.Entropy == "CM" {
				ln = min(ln, 100000)
			}
			rc := gen.DrawRecipe(t, 1, "data")
			rc.Len = ln
			cfg.Hint, cfg.HintClass = 0, "absent"
			if rapid.Bool().Draw(t, "hint") {
				cfg.Hint, cfg.HintClass = int64(ln), "exact"
			}
			djobs := rapid.IntRange(1, 8).Draw(t, "djobs")
			c := C06Case{Cfg: cfg, Data: rc, ReadJobs: uint(djobs)}
			data := rc.Expand()
			stream, err := Compress(data, cfg, nil)
			if err != nil {
				t.Skip("compress failed")
			}
			if out, err := Decompress(stream, cfg, uint(djobs), nil); err != nil || !bytes.Equal(out, data) {
				t.Skip("plain round trip fails")
			}
			r.Inflight("granularity", c)
			defer r.InflightDone()
			os.MkdirAll(work, 0o755)
			in, out := filepath.Join(work, "s.knz"), filepath.Join(work, "s.out")
			os.WriteFile(in, stream, 0o644)
			os.Remove(out)
			res := runCLI(work, nil, "-d", "-v", "0", "-f", "-j", fmt.Sprint(djobs), "-i", in, "-o", out)
			got, _ := os.ReadFile(out)
			nt := len(data) > int(cfg.Jobs)*bs && bs%32768 != 0
			r.Eval(vrt.HashOf(c), nt, "cli:file", "entropy:"+cfg.Entropy)
			if res.rc != 0 || !bytes.Equal(got, data) {
				r.Violation(t, "granularity", c, "command-line decompression of a valid %d-byte stream (%s, %d bytes of data) from a file: exit %d, %d bytes written, first difference at %d; %s",
					len(stream), cfg.String(), len(data), res.rc, len(got), firstDiff(got, data), firstLines(res.out+res.err, 4))
			}
			res = runCLI(work, stream, "-d", "-v", "0", "-j", fmt.Sprint(djobs))
			r.Eval(vrt.HashOf([]any{c, "pipe"}), nt, "cli:pipe", "entropy:"+cfg.Entropy)
			if res.rc != 0 || res.out != string(data) {
				r.Violation(t, "granularity", c, "command-line decompression of a valid stream (%s, %d bytes of data) from a pipe: exit %d, %d bytes written, first difference at %d; %s",
					cfg.String(), len(data), res.rc, len(res.out), firstDiff([]byte(res.out), data), firstLines(res.err, 4))
			}
			if nt && r.WantSample() {
				r.Sample(map[string]any{"mode": "cli-read-loop", "cfg": cfg.String(), "data": rc.String(), "decompress_jobs": djobs})
			}
		})
	}
}
