//go:build verif

package checks

import (
	"bytes"
	"encoding/json"
	"fmt"
	"io"
	"testing"

	kio "github.com/flanglet/kanzi-go/v2/io"
	"pgregory.net/rapid"

	"verif/harness/fio"
	"verif/harness/gen"
	"verif/harness/vrt"
)

// C07Case: one batch of N tasks on one side under one fault plan; Choices < nil = enumerate.
type C07Case struct {
	Side      string `json:"side"`           // "encode" or "decode"
	N         int    `json:"n"`              // tasks in the batch
	Blocks    int    `json:"blocks"`         // decode: blocks present in the stream (Blocks < N: task Blocks+1 meets the end marker)
	From      int    `json:"from,omitempty"` // decode: block range (skipped-block outcomes)
	To        int    `json:"to,omitempty"`
	BadBlock  int    `json:"bad_block,omitempty"` // decode: this block fails its checksum (data-caused failure after publishing)
	Fault     *Fault `json:"fault,omitempty"`
	Choices   []int  `json:"choices,omitempty"` // fixed schedule (replay / random mode)
	Enumerate bool   `json:"enumerate,omitempty"`
}

const c07Block = 1024

func c07Data(n int) []byte {
	d := gen.Recipe{Kind: gen.KText, Len: n * c07Block, Seed: 11}.Expand()
	gen.MarkBlocks(d, c07Block)
	return d
}

// c07Exec runs one execution under scheduler s and applies the oracle (monitor + enclosing call + content).
func c07Exec(c C07Case, s *Sched) string {
	if c.Side == "encode" {
		data := c07Data(c.N)
		ref, err := Compress(data, gen.Config{Transform: "NONE", Entropy: "NONE", BlockSize: c07Block, Jobs: 1, Checksum: 32}, nil)
		if err != nil {
			return "reference compression failed: " + err.Error()
		}
		sink := &fio.Sink{}
		w, err := kio.NewWriter(sink, "NONE", "NONE", c07Block, uint(c.N), 32, 0, false)
		if err != nil {
			return err.Error()
		}
		var werr error
		var wn int
		dl, ll, serr := s.Run(c.N, func() { wn, werr = w.Write(data) })
		if serr != nil {
			return "scheduler: " + serr.Error() + " | trace: " + s.TraceString()
		}
		if dl {
			return "clause 3 (termination): deadlock - every live task is parked in the wait loop and the counter cannot change | trace: " + s.TraceString()
		}
		if ll {
			return "clause 3 (termination): step bound exceeded (tasks keep spinning) | trace: " + s.TraceString()
		}
		if s.Early {
			return "clause 5: Write returned while tasks were still running | trace: " + s.TraceString()
		}
		if m := Monitor(0, s.Trace, 0); m != "" {
			return m + " | trace: " + s.TraceString()
		}
		if s.Fired {
			if werr == nil {
				return "clause 5: a task failed (injected) but Write returned nil | trace: " + s.TraceString()
			}
			// the failure must stay visible: Close must not report success
			if cerr := w.Close(); cerr == nil {
				return "clause 5 / C08: a task failed, yet the following Close reported success | trace: " + s.TraceString()
			}
			return ""
		}
		if werr != nil || wn != len(data) {
			return fmt.Sprintf("Write returned (%d, %v) without any failure | trace: %s", wn, werr, s.TraceString())
		}
		if cerr := w.Close(); cerr != nil {
			return "Close failed: " + cerr.Error()
		}
		if !bytes.Equal(sink.Data, ref) {
			return fmt.Sprintf("C04: output differs from the single-job reference under this schedule (first difference at byte %d) | trace: %s", firstDiff(sink.Data, ref), s.TraceString())
		}
		return ""
	}
	// decode
	nb := c.Blocks
	if nb <= 0 {
		nb = c.N
	}
	data := c07Data(nb)
	cfg := gen.Config{Transform: "NONE", Entropy: "NONE", BlockSize: c07Block, Jobs: 1, Checksum: 32}
	stream, err := Compress(data, cfg, nil)
	if err != nil {
		return "compression failed: " + err.Error()
	}
	if c.BadBlock > 0 && c.BadBlock <= nb {
		st, perr := parseStream(stream, cfg)
		if perr != nil {
			return "kfmt: " + perr.Error()
		}
		stream = append([]byte(nil), stream...)
		k := st.Blocks[c.BadBlock-1]
		pos := (k.PayloadStart + k.End) / 2 / 8
		stream[pos] ^= 0x5A
	}
	extra := map[string]any{}
	lo, hi := 0, len(data)
	if c.From > 0 {
		extra["from"] = c.From
		lo = min(len(data), (c.From-1)*c07Block)
	}
	if c.To > 0 {
		extra["to"] = c.To
		hi = max(lo, min(len(data), (c.To-1)*c07Block))
	}
	rd, err := openReader(fio.NewSource(stream), cfg, uint(c.N), extra, nil)
	if err != nil {
		return err.Error()
	}
	buf := make([]byte, len(data)+64)
	var got int
	var rerr error
	// ask for exactly the expected bytes so that Read returns after the batch that completes them
	first := max(1, min(len(buf), hi-lo))
	dl, ll, serr := s.Run(c.N, func() { got, rerr = rd.Read(buf[:first]) })
	if serr != nil {
		return "scheduler: " + serr.Error() + " | trace: " + s.TraceString()
	}
	if dl {
		return "clause 3 (termination): deadlock - a task waits for an id that will never be published | trace: " + s.TraceString()
	}
	if ll {
		return "clause 3 (termination): step bound exceeded | trace: " + s.TraceString()
	}
	if s.Early {
		return "clause 5: Read returned while tasks were still running | trace: " + s.TraceString()
	}
	if m := Monitor(1, s.Trace, 0); m != "" {
		return m + " | trace: " + s.TraceString()
	}
	want := data[lo:hi]
	failing := 0 // 1-based id of the lowest failing block, 0 if none
	if s.Fired {
		failing = int(s.fault.ID)
	}
	if c.BadBlock > 0 && c.BadBlock <= nb && (c.From == 0 || c.BadBlock >= c.From) && (c.To == 0 || c.BadBlock < c.To) {
		// the damaged block fails only if it is reached: a task injected before it may stop the batch first
		if failing == 0 || c.BadBlock < failing {
			reached := false
			for _, t := range s.Trace {
				if int(t.ID) == c.BadBlock && t.Point == pPUBLISHED {
					reached = true
				}
			}
			if reached {
				failing = c.BadBlock
			}
		}
	}
	// keep reading: later calls must not hand out anything from the failed block or beyond (C05)
	acc := append([]byte(nil), buf[:got]...)
	firstErr := rerr
	sawEOF := rerr == io.EOF
	for i := 0; i < 6 && !sawEOF; i++ {
		m, e := rd.Read(buf)
		acc = append(acc, buf[:m]...)
		if e == io.EOF {
			sawEOF = true
		} else if e != nil && (firstErr == nil || firstErr == io.EOF) {
			firstErr = e
		}
	}
	if !isPrefix(acc, want) {
		return fmt.Sprintf("C05: bytes returned are not a prefix of the expected output (first difference at %d, %d bytes returned) | trace: %s", firstDiff(acc, want), len(acc), s.TraceString())
	}
	if failing > 0 {
		if firstErr == nil || firstErr == io.EOF {
			return fmt.Sprintf("clause 5: block %d failed but no Read call reported an error (%d bytes, EOF=%v) | trace: %s", failing, len(acc), sawEOF, s.TraceString())
		}
		limit := max(0, (failing-1)*c07Block-lo)
		if len(acc) > limit {
			return fmt.Sprintf("C05: %d bytes returned although block %d failed (nothing from that block or beyond may be delivered: limit %d) | trace: %s", len(acc), failing, limit, s.TraceString())
		}
		return ""
	}
	if firstErr != nil && firstErr != io.EOF {
		return fmt.Sprintf("Read failed without any task failure: %v | trace: %s", firstErr, s.TraceString())
	}
	if !bytes.Equal(acc, want) {
		return fmt.Sprintf("C05: output differs from the expected slice: %d bytes, want %d | trace: %s", len(acc), len(want), s.TraceString())
	}
	return ""
}

func c07Plans(side string, n int, thorough bool) []C07Case {
	var plans []C07Case
	base := C07Case{Side: side, N: n, Enumerate: true}
	plans = append(plans, base)
	points := []int{pSTART, pPREWAIT, pIOBEGIN, pIOEND}
	if side == "decode" {
		points = []int{pSTART, pIOBEGIN, pIOEND, pPUBLISHED}
	}
	for id := 1; id <= n; id++ {
		for _, p := range points {
			c := base
			c.Fault = &Fault{ID: int32(id), Point: p}
			plans = append(plans, c)
		}
	}
	if side == "decode" {
		// data-caused failure after publishing (checksum mismatch of block b)
		for b := 1; b <= n; b++ {
			c := base
			c.BadBlock = b
			plans = append(plans, c)
		}
		// end-of-stream met by task j, and skipped-block outcomes
		for nb := 1; nb < n; nb++ {
			c := base
			c.Blocks = nb
			plans = append(plans, c)
		}
		if thorough || n <= 3 {
			for f := 1; f <= n; f++ {
				for t := f; t <= n+1; t++ {
					c := base
					c.From, c.To = f, t
					plans = append(plans, c)
				}
			}
		}
	}
	return plans
}

func c07Label(c C07Case) string {
	f := "none"
	if c.Fault != nil {
		f = fmt.Sprintf("task%d@%s", c.Fault.ID, pnames[c.Fault.Point])
	} else if c.BadBlock > 0 {
		f = fmt.Sprintf("badblock%d", c.BadBlock)
	} else if c.Blocks > 0 && c.Blocks < c.N {
		f = fmt.Sprintf("eos@task%d", c.Blocks+1)
	} else if c.From > 0 || c.To > 0 {
		f = "range"
	}
	return fmt.Sprintf("%s:N=%d:%s", c.Side, c.N, f)
}

func TestC07(t *testing.T) {
	r := start(t, "C07")
	for _, p := range r.ReplayFiles() {
		ff, err := vrt.LoadFail(p)
		if err != nil {
			t.Fatalf("unreadable replay file %s: %v", p, err)
		}
		var c C07Case
		if err := json.Unmarshal(ff.Case, &c); err != nil {
			t.Fatalf("bad case in %s: %v", p, err)
		}
		r.Inflight("handoff", c)
		msg := replaySchedule(c.Fault, c.Choices, func(s *Sched) string { return c07Exec(c, s) })
		r.InflightDone()
		r.Eval(vrt.HashOf(c), c.N >= 2, "replayed")
		if msg != "" {
			r.RecordFailure("handoff", c, p, msg)
			t.Fatalf("replay %s: %s", p, msg)
		}
	}
	if r.ReplayOnly() {
		return
	}
	// --- exhaustive enumeration, N <= 3 always, N = 4 (quick: capped per plan; thorough: complete)
	maxN := 4
	idx := 0
	for _, side := range []string{"encode", "decode"} {
		for n := 1; n <= maxN; n++ {
			for _, plan := range c07Plans(side, n, r.Thorough()) {
				idx++
				if !r.Mine(idx) {
					continue
				}
				capExec := 1 << 30
				widen := plan.From > 0 || plan.To > 0 // block-range plans: also branch right after the publish
				if widen && n >= 3 {
					capExec = r.Pick(4000, 200000)
				}
				if n >= 4 {
					// N = 4: capped per plan (quick: 2500; thorough: 400000 - only the block-range plans whose
					// all-skipped batches are relaunched exceed it; enumerations_complete says which finished)
					capExec = r.Pick(2500, 400000)
				}
				plan := plan
				r.Inflight("handoff", plan)
				planHash := vrt.HashOf(c07Label(plan))
				lastTrace := ""
				execs, complete, msg, choices := dfsEnumerate(n, plan.Fault, capExec, func(s *Sched) string {
					r.Tick()
					s.OnState = func(h uint64) { r.State(h ^ planHash) }
					s.BranchAfterPublish = widen
					return c07Exec(plan, s)
				}, func(s *Sched) {
					r.Eval(vrt.HashOf(s.TraceString()+c07Label(plan)), n >= 2 && s.Choices > 0, "plan:"+c07Label(plan))
					r.Count("transitions", int64(s.Steps))
					r.Count("traces_validated_against_impl", 1)
					lastTrace = s.TraceString()
				})
				r.InflightDone()
				r.SetExhaustive(c07Label(plan), complete)
				r.Label(fmt.Sprintf("executions:%s:N=%d", side, n))
				_ = execs
				if msg != "" {
					fc := plan
					fc.Enumerate = false
					fc.Choices = choices
					if r.Survey() {
						r.Violation(t, "handoff", fc, "%s", msg)
						continue
					}
					r.RecordFailure("handoff", fc, "", msg)
					t.Fatalf("C07 violated under %s: %s", c07Label(plan), msg)
				}
				if r.WantSample() {
					r.Sample(map[string]any{"plan": c07Label(plan), "executions": execs, "complete": complete, "last_trace_of_the_enumeration": lastTrace})
				}
			}
		}
	}
	// --- random schedules for larger N
	r.Rapid(t, "random-schedules", 600, 60000, func(t *rapid.T) {
		c := C07Case{Side: rapid.SampledFrom([]string{"encode", "decode"}).Draw(t, "side"), N: rapid.IntRange(5, 12).Draw(t, "n")}
		switch rapid.IntRange(0, 3).Draw(t, "plan") {
		case 1:
			pts := []int{pSTART, pPREWAIT, pIOBEGIN, pIOEND}
			if c.Side == "decode" {
				pts = []int{pSTART, pIOBEGIN, pIOEND, pPUBLISHED}
			}
			c.Fault = &Fault{ID: int32(rapid.IntRange(1, c.N).Draw(t, "fid")), Point: rapid.SampledFrom(pts).Draw(t, "fpoint")}
		case 2:
			if c.Side == "decode" {
				c.BadBlock = rapid.IntRange(1, c.N).Draw(t, "bad")
			}
		case 3:
			if c.Side == "decode" {
				c.Blocks = rapid.IntRange(1, c.N).Draw(t, "blocks")
			}
		}
		var taken []int
		s := &Sched{ch: make(chan *schedEvt), fault: c.Fault}
		s.choose = func(k int) int {
			v := rapid.IntRange(0, k-1).Draw(t, "pick")
			taken = append(taken, v)
			return v
		}
		planHash := vrt.HashOf(c07Label(c))
		s.OnState = func(h uint64) { r.State(h ^ planHash) }
		r.Inflight("handoff", c)
		msg := c07Exec(c, s)
		r.InflightDone()
		r.Count("transitions", int64(s.Steps))
		r.Count("traces_validated_against_impl", 1)
		r.Eval(vrt.HashOf(s.TraceString()+c07Label(c)), s.Choices > 0, "random:"+c.Side, fmt.Sprintf("random:N=%d", c.N))
		if msg != "" {
			c.Choices = taken
			r.Violation(t, "handoff", c, "%s", msg)
		}
	})
}
