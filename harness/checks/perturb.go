//go:build verif

package checks

import (
	"runtime"
	"sync"
	"sync/atomic"
	"time"

	kio "github.com/flanglet/kanzi-go/v2/io"
)

// perturb is the cheap sibling of the controlled scheduler: at every hook point it
// decides, from a PRNG stream seeded by the case, whether the task yields, sleeps
// a little, or goes on. It also measures how many tasks were alive at once.
type perturb struct {
	mu      sync.Mutex
	rg      sm64
	active  int32
	MaxLive int32
	Events  int64
	level   int // 0 = record only, 1 = yields, 2 = yields and sleeps
}

func newPerturb(seed uint64, level int) *perturb {
	return &perturb{rg: sm64{s: seed*7919 + 13}, level: level}
}

func (p *perturb) hook(side, point int, owner *int32, id, obs int32) {
	switch point {
	case pSTART:
		n := atomic.AddInt32(&p.active, 1)
		for {
			m := atomic.LoadInt32(&p.MaxLive)
			if n <= m || atomic.CompareAndSwapInt32(&p.MaxLive, m, n) {
				break
			}
		}
	case pEXIT:
		atomic.AddInt32(&p.active, -1)
	}
	ev := atomic.AddInt64(&p.Events, 1)
	if p.level == 0 {
		return
	}
	if point == pSPIN && ev&0x3F != 0 {
		// the wait loop runs very often: perturb it rarely
		return
	}
	p.mu.Lock()
	v := p.rg.next()
	p.mu.Unlock()
	switch v % 8 {
	case 0, 1, 2:
		runtime.Gosched()
	case 3:
		if p.level >= 2 {
			time.Sleep(time.Duration(v>>8%200) * time.Microsecond)
		} else {
			runtime.Gosched()
		}
	case 4:
		// favour later blocks: earlier ones yield more
		for i := int32(0); i < 3-id%3; i++ {
			runtime.Gosched()
		}
	}
}

var perturbMu sync.Mutex

// withPerturb installs the perturbation hook around f (one at a time per process).
func withPerturb(p *perturb, f func()) {
	perturbMu.Lock()
	defer perturbMu.Unlock()
	if p != nil {
		kio.VerifHook = p.hook
	}
	defer func() { kio.VerifHook = nil }()
	f()
}
