package checks

import (
	"bytes"
	"encoding/json"
	"fmt"
	"strings"
	"testing"

	"github.com/flanglet/kanzi-go/v2/bitstream"
	kio "github.com/flanglet/kanzi-go/v2/io"
	"pgregory.net/rapid"

	"verif/harness/fio"
	"verif/harness/gen"
	"verif/harness/vrt"
)

// C08Case: one scenario and one fault plan. K < 0 = enumerate every k (sweep).
type C08Case struct {
	Cfg        gen.Config `json:"cfg"`
	Data       gen.Recipe `json:"data"`
	WriteSizes []int      `json:"write_sizes,omitempty"`
	Side       string     `json:"side"`         // "sink-write", "sink-close", "source-read"
	K          int        `json:"k"`            // 1-based index of the failing underlying call; <= 0: sweep over all k
	K2         int        `json:"k2,omitempty"` // second failing call (pairs)
	Sticky     bool       `json:"sticky,omitempty"`
	Prefix     int        `json:"prefix,omitempty"`    // bytes a failing sink write still accepts
	WithData   bool       `json:"with_data,omitempty"` // failing source read returns (n>0, err)
	After      string     `json:"after"`               // caller model after an error: stop, close, close2, write-close
	ReadJobs   uint       `json:"read_jobs"`
	ReadBuf    int        `json:"read_buf,omitempty"`
	// BufSize > 0: Writer and Reader are built on default bitstreams with this buffer size (through
	// NewWriterWithCtx2 / NewReaderWithCtx2) instead of the 256 KiB default, so that a flush / refill - and
	// therefore a possible I/O failure - can occur at every write site (header, block length prefix,
	// block bytes, end marker, Close) with small data
	BufSize int `json:"buf_size,omitempty"`
	// From/To > 0: the reader decodes the block range [From, To) (ctx "from"/"to"); a source failure met while a
	// block outside the range is being skipped over must be reported like any other
	From int `json:"from,omitempty"`
	To   int `json:"to,omitempty"`
	// SrcSizes: sizes of the pieces the source delivers (last repeats; empty = fills every request). With short
	// pieces the input bitstream tops a refill up with further reads, each of which is a call that can fail
	SrcSizes []int `json:"src_sizes,omitempty"`
}

// c08NewWriter builds the Writer of a scenario over sink.
func c08NewWriter(sink *fio.Sink, c C08Case) (*kio.Writer, error) {
	if c.BufSize <= 0 {
		return kio.NewWriter(sink, c.Cfg.Transform, c.Cfg.Entropy, c.Cfg.BlockSize, c.Cfg.Jobs, c.Cfg.Checksum, c.Cfg.Hint, false)
	}
	obs, err := bitstream.NewDefaultOutputBitStream(sink, uint(c.BufSize))
	if err != nil {
		return nil, err
	}
	ctx := map[string]any{"transform": c.Cfg.Transform, "entropy": c.Cfg.Entropy, "blockSize": c.Cfg.BlockSize, "jobs": c.Cfg.Jobs,
		"checksum": c.Cfg.Checksum, "headerless": false}
	if c.Cfg.Hint > 0 {
		ctx["fileSize"] = c.Cfg.Hint
	}
	return kio.NewWriterWithCtx2(obs, ctx)
}

// c08NewReader builds the Reader of a scenario over src.
func c08NewReader(src *fio.Source, c C08Case) (*kio.Reader, error) {
	ctx := map[string]any{"jobs": max(c.ReadJobs, 1)}
	if c.From > 0 {
		ctx["from"] = c.From
	}
	if c.To > 0 {
		ctx["to"] = c.To
	}
	if c.BufSize <= 0 {
		if c.From <= 0 && c.To <= 0 {
			return kio.NewReader(src, max(c.ReadJobs, 1))
		}
		return kio.NewReaderWithCtx(src, ctx)
	}
	ibs, err := bitstream.NewDefaultInputBitStream(src, uint(c.BufSize))
	if err != nil {
		return nil, err
	}
	return kio.NewReaderWithCtx2(ibs, ctx)
}

// c08Want is the slice of the data a reader restricted to the block range of the scenario must return.
func c08Want(c C08Case, data []byte) []byte {
	bs := int(c.Cfg.BlockSize)
	lo, hi := 0, len(data)
	if c.From > 0 {
		lo = min(len(data), (c.From-1)*bs)
	}
	if c.To > 0 {
		hi = max(lo, min(len(data), (c.To-1)*bs))
	}
	return data[lo:hi]
}

type c08Pre struct {
	want                   []byte // what the reader of the scenario must return (the data, or its block range)
	data, stream           []byte
	sinkWrites, sinkCloses int
	srcReads               int
}

func c08Prepare(c C08Case) (*c08Pre, string) {
	p := &c08Pre{data: c.Data.Expand()}
	sink := &fio.Sink{}
	err := guard(func() error {
		w, e := c08NewWriter(sink, c)
		if e != nil {
			return e
		}
		if e := WriteAll(w, p.data, c.WriteSizes); e != nil {
			return e
		}
		return w.Close()
	})
	if err != nil {
		return nil, "fault-free compression failed: " + err.Error()
	}
	p.stream = sink.Data
	p.sinkWrites, p.sinkCloses = sink.Writes, sink.Closes
	src := fio.NewSource(p.stream)
	src.Sizes = c.SrcSizes
	rd, err := c08NewReader(src, c)
	if err != nil {
		return nil, "fault-free reader construction failed: " + err.Error()
	}
	buf := c.ReadBuf
	if buf <= 0 {
		buf = 65536
	}
	tr := ReadOn(rd, []int{buf}, 0, 1<<20)
	rd.Close()
	p.want = c08Want(c, p.data)
	if tr.FirstErr != nil || tr.Panic != "" || !bytes.Equal(tr.Acc, p.want) {
		return nil, fmt.Sprintf("fault-free decode failed: %v %s", tr.FirstErr, tr.Panic)
	}
	p.srcReads = src.Reads
	return p, ""
}

// c08Writer runs the writer scenario with a fault plan; "" = property held.
func c08Writer(c C08Case, p *c08Pre, k, k2 int) (msg string, fired bool) {
	sink := &fio.Sink{FailWrite: map[int]bool{}, FailClose: map[int]bool{}, Sticky: c.Sticky, Prefix: c.Prefix}
	if c.Side == "sink-close" {
		sink.FailClose[k] = true
	} else {
		sink.FailWrite[k] = true
		if k2 > 0 {
			sink.FailWrite[k2] = true
		}
	}
	var w *kio.Writer
	var err error
	if pe := guard(func() error {
		w, err = c08NewWriter(sink, c)
		return nil
	}); pe != nil || err != nil {
		return fmt.Sprintf("writer construction: %v %v", pe, err), false
	}
	desc := fmt.Sprintf("%s fault at underlying call %d (second %d, sticky=%v, prefix=%d), caller model %q", c.Side, k, k2, c.Sticky, c.Prefix, c.After)
	sawErr := false
	success := false
	call := func(name string, f func() error) string {
		var e error
		if pe := guard(func() error { e = f(); return nil }); pe != nil {
			return fmt.Sprintf("%s: the failure escaped %s as a panic: %s", desc, name, pe.Error())
		}
		if e != nil {
			sawErr = true
		} else if name == "Close" {
			success = true
		}
		return ""
	}
	// the caller's writes; after the first error the caller model decides
	off := 0
	sizes := append([]int(nil), c.WriteSizes...)
	sizes = append(sizes, len(p.data)) // remainder
	stopped := false
	for _, n := range sizes {
		n = max(0, min(n, len(p.data)-off))
		if m := call("Write", func() error { _, e := w.Write(p.data[off : off+n]); return e }); m != "" {
			return m, sink.Fired > 0
		}
		off += n
		if sawErr && c.After != "write-close" {
			stopped = true
			break
		}
	}
	_ = stopped
	closes := 1
	switch c.After {
	case "stop":
		if sawErr {
			closes = 0
		}
	case "close2":
		closes = 3
	}
	for i := 0; i < closes && !success; i++ {
		if m := call("Close", w.Close); m != "" {
			return m, sink.Fired > 0
		}
	}
	fired = sink.Fired > 0
	if success {
		if !bytes.Equal(sink.Data, p.stream) && kf20Signature(sink, p.stream) {
			return "KF-20: a sink write that accepted a prefix and failed was retried from the start by a later Close: the accepted prefix is duplicated at the sink and Close reports success", fired
		}
		if !bytes.Equal(sink.Data, p.stream) {
			return fmt.Sprintf("%s: Close reported success but the sink holds %d bytes that differ from the complete stream (%d bytes, first difference at %d); error reported by an earlier call: %v",
				desc, len(sink.Data), len(p.stream), firstDiff(sink.Data, p.stream), sawErr), fired
		}
		if fired && !sawErr {
			// all bytes did reach the sink, so some retry happened; an error must still have been reported in between
			return fmt.Sprintf("%s: the sink rejected a call but no Write/Close ever returned an error", desc), fired
		}
	} else if fired && !sawErr && c.After != "stop" {
		return fmt.Sprintf("%s: the injected failure was never reported (no call returned an error, none reported success)", desc), fired
	}
	return "", fired
}

// c08Reader runs the reader scenario with a failing source.
func c08Reader(c C08Case, p *c08Pre, k, k2 int) (msg string, fired bool) {
	src := &fio.Source{Data: p.stream, FailRead: map[int]bool{k: true}, Sticky: c.Sticky, WithData: c.WithData, Sizes: c.SrcSizes}
	if k2 > 0 {
		src.FailRead[k2] = true
	}
	desc := fmt.Sprintf("source-read fault at underlying call %d (second %d, sticky=%v, with-data=%v), reader jobs %d, block range [%d,%d)", k, k2, c.Sticky, c.WithData, c.ReadJobs, c.From, c.To)
	var rd *kio.Reader
	var err error
	if pe := guard(func() error { rd, err = c08NewReader(src, c); return nil }); pe != nil {
		return desc + ": reader construction panicked: " + pe.Error(), false
	}
	if err != nil {
		return "", src.Fired > 0
	}
	buf := c.ReadBuf
	if buf <= 0 {
		buf = 65536
	}
	tr := ReadOn(rd, []int{buf}, 8, 1<<20)
	guard(func() error { rd.Close(); return nil })
	fired = src.Fired > 0
	if tr.Panic != "" {
		return fmt.Sprintf("%s: the failure escaped Read as a panic: %s", desc, tr.Panic), fired
	}
	if !isPrefix(tr.Acc, p.want) {
		return fmt.Sprintf("%s: bytes returned are not a prefix of the original (first difference at %d of %d returned; first error %v after %d bytes)", desc, firstDiff(tr.Acc, p.want), len(tr.Acc), tr.FirstErr, tr.AccAtErr), fired
	}
	if tr.FirstErr == nil {
		if !tr.SawEOF {
			return desc + ": reader neither failed nor ended", fired
		}
		if !bytes.Equal(tr.Acc, p.want) {
			return fmt.Sprintf("%s: source error turned into a clean end of stream after %d of %d bytes", desc, len(tr.Acc), len(p.want)), fired
		}
		if fired && !c.WithData {
			// complete and correct output although a read failed: only possible if the failing call was not needed
			// (it happened after the end marker had been consumed); tolerated.
			return "", fired
		}
	}
	return "", fired
}

func c08Sweep(r *vrt.Run, c C08Case) (string, C08Case) {
	p, why := c08Prepare(c)
	if p == nil {
		r.Label("skipped:" + firstLine(why))
		return "", c
	}
	r.Inflight("iofault", c)
	defer r.InflightDone()
	n := 0
	switch c.Side {
	case "sink-write":
		n = p.sinkWrites
	case "sink-close":
		n = p.sinkCloses
	default:
		n = p.srcReads
	}
	try := func(k, k2 int) string {
		r.Tick()
		var msg string
		var fired bool
		if c.Side == "source-read" {
			msg, fired = c08Reader(c, p, k, k2)
		} else {
			msg, fired = c08Writer(c, p, k, k2)
		}
		cc := c
		cc.K, cc.K2 = k, k2
		r.Eval(vrt.HashOf(cc), fired, "side:"+c.Side, "after:"+c.After, fmt.Sprintf("sticky:%v", c.Sticky), "wjobs:"+jobsClass(c.Cfg.Jobs), fmt.Sprintf("calls:%d", min(n, 50)/10*10))
		return msg
	}
	for k := 1; k <= n; k++ {
		if msg := try(k, 0); msg != "" {
			if strings.HasPrefix(msg, "KF-20:") && r.KnownOpen("KF-20") {
				r.Excluded("KF-20")
				continue
			}
			cc := c
			cc.K = k
			return msg, cc
		}
	}
	if r.Thorough() && c.Side != "sink-close" {
		for k := 1; k <= n; k++ {
			for k2 := k + 1; k2 <= min(n, k+3); k2++ {
				if msg := try(k, k2); msg != "" {
					if strings.HasPrefix(msg, "KF-20:") && r.KnownOpen("KF-20") {
						r.Excluded("KF-20")
						continue
					}
					cc := c
					cc.K, cc.K2 = k, k2
					return msg, cc
				}
			}
		}
	}
	if r.WantSample() {
		r.Sample(map[string]any{"cfg": c.Cfg.String(), "data": c.Data.String(), "side": c.Side, "fault_free_calls": n, "sticky": c.Sticky, "prefix": c.Prefix,
			"after": c.After, "read_jobs": c.ReadJobs, "write_sizes": clipInts(c.WriteSizes, 6)})
	}
	return "", c
}

func drawC08(t *rapid.T) C08Case {
	var c C08Case
	c.Cfg = gen.Config{Transform: rapid.SampledFrom([]string{"NONE", "LZ", "RLT", "TEXT", "BWT", "ROLZ"}).Draw(t, "tr"),
		Entropy:   rapid.SampledFrom([]string{"NONE", "HUFFMAN", "ANS0", "FPAQ", "RANGE"}).Draw(t, "en"),
		BlockSize: uint(rapid.SampledFrom([]int{1024, 4096, 65536, 262144}).Draw(t, "bs")), Jobs: uint(rapid.IntRange(1, 4).Draw(t, "jobs")),
		Checksum: rapid.SampledFrom([]uint{0, 32}).Draw(t, "ck"), HintClass: "absent"}
	// sizes chosen so that the 256 KiB bitstream buffers are flushed / refilled several times
	c.Data = gen.Recipe{Kind: rapid.SampledFrom([]int{gen.KRandom, gen.KText, gen.KRuns, gen.KRandom}).Draw(t, "kind"),
		Len: rapid.OneOf(rapid.IntRange(0, 5000), rapid.IntRange(200000, 1500000)).Draw(t, "len"), Seed: rapid.Uint64Range(0, 1000).Draw(t, "seed")}
	if rapid.Bool().Draw(t, "split") {
		bs := int(c.Cfg.BlockSize)
		c.WriteSizes = rapid.SliceOfN(rapid.IntRange(0, 3*bs), 1, 5).Draw(t, "ws")
	}
	c.Side = rapid.SampledFrom([]string{"sink-write", "sink-write", "sink-close", "source-read", "source-read"}).Draw(t, "side")
	c.Sticky = rapid.Bool().Draw(t, "sticky")
	if c.Side == "sink-write" && rapid.Bool().Draw(t, "pfx") {
		c.Prefix = rapid.SampledFrom([]int{1, 7, 4096, 100000}).Draw(t, "prefix")
	}
	if c.Side == "source-read" {
		c.WithData = rapid.IntRange(0, 3).Draw(t, "withData") == 0
	}
	c.After = rapid.SampledFrom([]string{"stop", "close", "close2", "write-close"}).Draw(t, "after")
	c.ReadJobs = uint(rapid.IntRange(1, 4).Draw(t, "rjobs"))
	c.ReadBuf = rapid.SampledFrom([]int{0, 100, 4096}).Draw(t, "rbuf")
	ranged := c.Side == "source-read" && rapid.IntRange(0, 2).Draw(t, "ranged") == 0
	if c.Side != "sink-close" && rapid.IntRange(0, 2).Draw(t, "smallbuf") > 0 {
		// small bitstream buffers: many flush / refill points with little data, at every write site
		c.BufSize = rapid.SampledFrom([]int{1024, 1024, 1032, 2048, 4096, 16384}).Draw(t, "bufSize")
		c.Data.Len = rapid.OneOf(rapid.IntRange(0, 3*c.BufSize), rapid.IntRange(0, 40*c.BufSize)).Draw(t, "lenSmallBuf")
	}
	if c.Side == "source-read" && rapid.IntRange(0, 2).Draw(t, "pieces") == 0 {
		// a source that delivers short pieces (pipes, sockets): sizes that are not multiples of 8 make the input
		// bitstream issue continuation reads; data kept small because every underlying call gets its own fault run
		c.SrcSizes = rapid.SliceOfN(rapid.SampledFrom([]int{1, 3, 7, 13, 64, 100, 1021, 1024, 4099}), 1, 3).Draw(t, "srcSizes")
		mn := c.SrcSizes[0]
		for _, v := range c.SrcSizes {
			mn = min(mn, v)
		}
		c.Data.Len = min(c.Data.Len, 250*mn)
		if c.Data.Kind == gen.KRuns {
			c.Data.Kind = gen.KRandom // keep the stream about as long as the data
		}
	}
	if ranged {
		// a block range over a stream of several small blocks read through a small bitstream buffer, so that
		// refills (and the injected failure) fall inside blocks before, inside and after the range
		c.Cfg.BlockSize = uint(rapid.SampledFrom([]int{1024, 4096}).Draw(t, "rbs"))
		if c.BufSize <= 0 {
			c.BufSize = 1024
		}
		nb := rapid.IntRange(2, 10).Draw(t, "rnb")
		c.Data.Len = nb*int(c.Cfg.BlockSize) - rapid.IntRange(0, 700).Draw(t, "rshort")
		c.From = rapid.IntRange(1, nb+1).Draw(t, "from")
		c.To = rapid.IntRange(c.From, nb+2).Draw(t, "to")
		switch rapid.IntRange(0, 3).Draw(t, "half") {
		case 0:
			c.From = 0
		case 1:
			c.To = 0
		}
		c.WriteSizes = nil
	}
	if len(c.SrcSizes) > 0 {
		mn := c.SrcSizes[0]
		for _, v := range c.SrcSizes {
			mn = min(mn, v)
		}
		c.Data.Len = min(c.Data.Len, 250*mn) // at most ~250 underlying reads per scenario
	}
	return c
}

func TestC08(t *testing.T) {
	r := start(t, "C08")
	for _, p := range r.ReplayFiles() {
		ff, err := vrt.LoadFail(p)
		if err != nil {
			t.Fatalf("unreadable replay file %s: %v", p, err)
		}
		var c C08Case
		if err := json.Unmarshal(ff.Case, &c); err != nil {
			t.Fatalf("bad case in %s: %v", p, err)
		}
		var msg string
		if c.K <= 0 {
			msg, c = c08Sweep(r, c)
		} else if pre, _ := c08Prepare(c); pre != nil {
			var fired bool
			if c.Side == "source-read" {
				msg, fired = c08Reader(c, pre, c.K, c.K2)
			} else {
				msg, fired = c08Writer(c, pre, c.K, c.K2)
			}
			r.Eval(vrt.HashOf(c), fired, "replayed")
		}
		if msg != "" {
			if strings.HasPrefix(msg, "KF-20:") && r.KnownOpen("KF-20") {
				r.KnownLine(msg)
				continue
			}
			r.RecordFailure("iofault", c, p, msg)
			t.Fatalf("replay %s: %s", p, msg)
		}
	}
	if r.ReplayOnly() {
		return
	}
	r.Rapid(t, "scenarios-all-k", 1000, 12000, func(t *rapid.T) {
		c := drawC08(t)
		if msg, fc := c08Sweep(r, c); msg != "" {
			r.Violation(t, "iofault", fc, "%s", msg)
		}
	})
	if r.Failed() {
		return
	}
	// Buffer-edge sweep: with a 1 KiB bitstream buffer EVERY data length in a window that spans more than two
	// buffers is tried, so the flush (and the injected failure) is triggered in turn by every write site of the
	// stream layer - header, block length prefix, block bytes, end marker written by Close, final flush - at every
	// byte offset of the buffer; the bit phase varies with the number of blocks and the codec.
	type edgeCfg struct {
		tr, en string
		bs     uint
		jobs   uint
		ck     uint
		kind   int
	}
	cfgs := []edgeCfg{{"NONE", "NONE", 1024, 1, 0, gen.KRandom}, {"NONE", "NONE", 1024, 2, 32, gen.KRandom}, {"NONE", "NONE", 4096, 1, 64, gen.KRandom},
		{"NONE", "HUFFMAN", 1024, 1, 0, gen.KText}, {"LZ", "NONE", 2048, 3, 0, gen.KText}, {"NONE", "ANS0", 1024, 2, 0, gen.KRandom}}
	step := r.Pick(1, 1)
	hi := r.Pick(2300, 5200)
	idx := 0
	for ci, ec := range cfgs {
		if !r.Thorough() && ci >= 4 {
			break
		}
		for L := 0; L <= hi; L += step {
			for _, side := range []string{"sink-write", "source-read"} {
				idx++
				if !r.Mine(idx) {
					continue
				}
				afters := []string{"close", "close2", "write-close", "stop"}
				// one (fault persistence, caller model) combination per length; all eight where the end of the stream
				// falls in the last bytes of a bitstream buffer (the end marker, the final word and Close meet there)
				combos := [][2]int{{(L + ci) % 2, (L/2 + ci) % 4}}
				if side == "sink-write" && L%1016 >= 950 {
					combos = nil
					for st := 0; st < 2; st++ {
						for a := 0; a < 4; a++ {
							combos = append(combos, [2]int{st, a})
						}
					}
				}
				for _, cb := range combos {
					c := C08Case{Cfg: gen.Config{Transform: ec.tr, Entropy: ec.en, BlockSize: ec.bs, Jobs: ec.jobs, Checksum: ec.ck, HintClass: "absent"},
						Data: gen.Recipe{Kind: ec.kind, Len: L, Seed: uint64(ci)}, Side: side, K: -1, Sticky: cb[0] == 0,
						After: afters[cb[1]], ReadJobs: uint(1 + L%3), BufSize: 1024}
					if side == "source-read" {
						c.WithData = L%5 == 0
					} else if L%7 == 0 && len(combos) == 1 {
						c.Prefix = []int{1, 7, 512}[L/7%3]
					}
					if msg, fc := c08Sweep(r, c); msg != "" {
						r.RecordFailure("iofault", fc, "", msg)
						t.Fatalf("buffer-edge sweep: %s on %s", msg, jsonOf(fc))
					}
					r.Label("edge-sweep")
				}
			}
		}
	}
	r.SetExhaustive(fmt.Sprintf("buffer-edge sweep: every data length 0..%d x every fault index, 1 KiB bitstream buffers", hi), true)
}

// kf20Signature recognises known finding KF-20 on the sink contents: exactly one
// failing write accepted a non-empty prefix, and removing those accepted bytes
// at the offset where they arrived yields the complete stream (i.e. the only
// damage is the duplicated prefix re-sent by the retried flush).
func kf20Signature(sink *fio.Sink, stream []byte) bool {
	if len(sink.FaultAt) != 1 || sink.FaultAccepted[0] <= 0 {
		return false
	}
	at, n := sink.FaultAt[0], sink.FaultAccepted[0]
	if at+n > len(sink.Data) || len(sink.Data) != len(stream)+n {
		return false
	}
	dedup := append(append([]byte(nil), sink.Data[:at]...), sink.Data[at+n:]...)
	return bytes.Equal(dedup, stream)
}
