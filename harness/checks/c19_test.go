package checks

import (
	"bytes"
	"encoding/json"
	"fmt"
	"os"
	"os/exec"
	"path/filepath"
	"sort"
	"strings"
	"syscall"
	"testing"
	"time"

	kio "github.com/flanglet/kanzi-go/v2/io"
	"pgregory.net/rapid"

	"verif/harness/fio"
	"verif/harness/gen"
	"verif/harness/vrt"
)

// TreeFile is one regular file of a generated tree.
type TreeFile struct {
	Path string     `json:"path"`
	Data gen.Recipe `json:"data"`
}

// C19Case: a file tree, tool options, a scenario.
type C19Case struct {
	Tree     []TreeFile `json:"tree"`
	Opts     []string   `json:"opts"`                // compression options (-l N | -t X -e Y, -b, -j, -x.., -s)
	DJobs    int        `json:"djobs"`               // -j of the decompression run
	Scenario string     `json:"scenario"`            // inplace, outdir, outdir-force, single, pipe, no-overwrite, same-file, rm, rm-kill
	KillMs   int        `json:"kill_ms,omitempty"`   // rm-kill: delay before SIGKILL in microseconds-ish units (scaled by the measured duration)
	KillFrac int        `json:"kill_frac,omitempty"` // rm-kill: per-mille of the measured duration
	// InSpell: how the input directory is spelled on the command line (tree scenarios): "" = "src", "dot-slash" = "./src",
	// "trailing-slash" = "src/", "dot-slash-trailing" = "./src/", "abs" = absolute path, "dotdot" = "src/../src",
	// "double-slash" = "src//", "cwd-dot" = "." with the tool started inside the directory, "norec" = "src/." (documented: no recursion),
	// "named-dot" = the directory really is named "src." (a trailing dot in the NAME, not the "dir/." spelling)
	InSpell string `json:"in_spell,omitempty"`
}

// spellDir returns the command-line spelling of directory name (relative to work) and the working directory to use.
func spellDir(work, name, spell string) (arg, cwd string) {
	switch spell {
	case "dot-slash":
		return "./" + name, work
	case "trailing-slash":
		return name + "/", work
	case "dot-slash-trailing":
		return "./" + name + "/", work
	case "abs":
		return filepath.Join(work, name), work
	case "dotdot":
		return name + "/../" + name, work
	case "double-slash":
		return name + "//", work
	case "cwd-dot":
		return ".", filepath.Join(work, name)
	case "norec":
		return name + "/.", work
	}
	return name, work
}

// relTo rewrites a path relative to work for a tool started in cwd.
func relTo(work, cwd, p string) string {
	if cwd == work {
		return p
	}
	return filepath.Join(work, p)
}

// topLevelOnly keeps the files that lie directly in the tree root (what "dir/." addresses).
func topLevelOnly(content map[string][]byte) map[string][]byte {
	out := map[string][]byte{}
	for k, v := range content {
		if !strings.Contains(k, "/") {
			out[k] = v
		}
	}
	return out
}

func cliPath() string { return os.Getenv("VERIF_CLI") }

type cliRes struct {
	rc       int
	out, err string
	dur      time.Duration
}

func runCLI(dir string, stdin []byte, args ...string) cliRes {
	cmd := exec.Command(cliPath(), args...)
	cmd.Dir = dir
	if stdin != nil {
		cmd.Stdin = bytes.NewReader(stdin)
	}
	var o, e bytes.Buffer
	cmd.Stdout, cmd.Stderr = &o, &e
	t0 := time.Now()
	err := cmd.Run()
	res := cliRes{out: o.String(), err: e.String(), dur: time.Since(t0)}
	if err != nil {
		res.rc = -1
		if ee, ok := err.(*exec.ExitError); ok {
			res.rc = ee.ExitCode()
		}
	}
	return res
}

func writeTree(root string, tree []TreeFile) (map[string][]byte, error) {
	content := map[string][]byte{}
	for _, f := range tree {
		p := filepath.Join(root, f.Path)
		if err := os.MkdirAll(filepath.Dir(p), 0o755); err != nil {
			return nil, err
		}
		d := f.Data.Expand()
		if err := os.WriteFile(p, d, 0o644); err != nil {
			return nil, err
		}
		content[f.Path] = d
	}
	return content, nil
}

func readTree(root string) map[string][]byte {
	out := map[string][]byte{}
	filepath.Walk(root, func(p string, info os.FileInfo, err error) error {
		if err == nil && info.Mode().IsRegular() {
			rel, _ := filepath.Rel(root, p)
			b, _ := os.ReadFile(p)
			out[rel] = b
		}
		return nil
	})
	return out
}

func treeDiff(want, got map[string][]byte) string {
	var names []string
	for k := range want {
		names = append(names, k)
	}
	sort.Strings(names)
	for _, k := range names {
		g, ok := got[k]
		if !ok {
			return fmt.Sprintf("file %q is missing", k)
		}
		if !bytes.Equal(g, want[k]) {
			return fmt.Sprintf("file %q differs: %d bytes vs %d, first difference at %d", k, len(g), len(want[k]), firstDiff(g, want[k]))
		}
	}
	for k := range got {
		if _, ok := want[k]; !ok {
			return fmt.Sprintf("unexpected extra file %q", k)
		}
	}
	return ""
}

// decodeFile decodes a .knz file with the library Reader (the oracle for the kill-point clause).
func decodeFile(path string) ([]byte, error) {
	b, err := os.ReadFile(path)
	if err != nil {
		return nil, err
	}
	var out []byte
	err = guard(func() error {
		rd, e := kio.NewReader(fio.NewSource(b), 1)
		if e != nil {
			return e
		}
		defer rd.Close()
		var e2 error
		out, e2 = Drain(rd, nil)
		return e2
	})
	return out, err
}

type c19Out struct {
	msg        string
	nontrivial bool
	label      string
}

func runC19(r *vrt.Run, c C19Case, work string) (o c19Out) {
	os.RemoveAll(work)
	defer os.RemoveAll(work)
	// "named-dot": the directories given to -i are really NAMED with a trailing dot ("src.", "comp.", "out."),
	// which is not the documented "dir/." spelling
	sfx := ""
	spell := c.InSpell
	if c.InSpell == "named-dot" && (c.Scenario == "inplace" || c.Scenario == "outdir" || c.Scenario == "outdir-force" || c.Scenario == "force-over-existing") {
		sfx, spell = ".", ""
	}
	src := filepath.Join(work, "src"+sfx)
	content, err := writeTree(src, c.Tree)
	if err != nil {
		o.label = "skipped:cannot-create-tree"
		return
	}
	hasSub, hasBlock := false, false
	for _, f := range c.Tree {
		if strings.Contains(f.Path, "/") {
			hasSub = true
		}
		if f.Data.Len >= 1024 {
			hasBlock = true
		}
	}
	o.nontrivial = len(c.Tree) >= 2 && hasSub && hasBlock
	dj := fmt.Sprintf("%d", max(1, c.DJobs))
	cargs := append([]string{"-c", "-v", "0"}, c.Opts...)
	show := func(res cliRes) string {
		return fmt.Sprintf("exit %d; stdout: %s; stderr: %s", res.rc, firstLines(strings.TrimSpace(res.out), 6), firstLines(strings.TrimSpace(res.err), 12))
	}
	if c.InSpell == "norec" && len(topLevelOnly(content)) == 0 {
		// "dir/." addresses the files directly in dir: there is none, the tool legitimately finds nothing to do
		o.label = "skipped:no-top-level-file"
		return
	}
	switch c.Scenario {
	case "inplace":
		inArg, cwd := spellDir(work, "src"+sfx, spell)
		res := runCLI(cwd, nil, append(cargs, "-i", inArg)...)
		if res.rc != 0 {
			o.msg = fmt.Sprintf("compressing the tree in place (-i %s) failed: %s", inArg, show(res))
			return
		}
		after := readTree(src)
		if c.InSpell == "norec" {
			for k := range content {
				if strings.Contains(k, "/") {
					if _, ok := after[k+".knz"]; ok {
						o.msg = fmt.Sprintf("-i %s (no recursion) compressed %q in a sub-directory", inArg, k)
						return
					}
				}
			}
			content = topLevelOnly(content)
			if len(content) == 0 {
				o.label = "skipped:no-top-level-file"
				return
			}
		}
		for k, v := range content {
			if !bytes.Equal(after[k], v) {
				o.msg = fmt.Sprintf("input file %q was modified by the compression run", k)
				return
			}
			if _, ok := after[k+".knz"]; !ok {
				o.msg = fmt.Sprintf("no output %q after a run that exited 0", k+".knz")
				return
			}
		}
		// move the compressed files to a fresh tree and decompress there
		comp := filepath.Join(work, "comp"+sfx)
		for k := range content {
			os.MkdirAll(filepath.Dir(filepath.Join(comp, k)), 0o755)
			if err := os.Rename(filepath.Join(src, k+".knz"), filepath.Join(comp, k+".knz")); err != nil {
				o.msg = "cannot move output: " + err.Error()
				return
			}
		}
		dArg, dcwd := spellDir(work, "comp"+sfx, spell)
		if c.InSpell == "norec" {
			dArg, dcwd = "comp"+sfx, work
		}
		res = runCLI(dcwd, nil, "-d", "-v", "0", "-j", dj, "-i", dArg)
		if res.rc != 0 {
			o.msg = fmt.Sprintf("decompressing the tree (-i %s) failed: %s", dArg, show(res))
			return
		}
		got := readTree(comp)
		for k := range got {
			if strings.HasSuffix(k, ".knz") {
				delete(got, k)
			}
		}
		if d := treeDiff(content, got); d != "" {
			o.msg = "tree not restored: " + d
		}
	case "outdir", "outdir-force", "force-over-existing":
		os.MkdirAll(filepath.Join(work, "out"+sfx), 0o755)
		os.MkdirAll(filepath.Join(work, "back"), 0o755)
		inArg, cwd := spellDir(work, "src"+sfx, spell)
		a := append(cargs, "-i", inArg, "-o", relTo(work, cwd, "out"+sfx))
		dArg, dcwd := spellDir(work, "out"+sfx, spell)
		if c.InSpell == "norec" {
			dArg, dcwd = "out"+sfx, work
		}
		d := []string{"-d", "-v", "0", "-j", dj, "-i", dArg, "-o", relTo(work, dcwd, "back")}
		want := content
		if c.InSpell == "norec" {
			want = topLevelOnly(content)
			if len(want) == 0 {
				o.label = "skipped:no-top-level-file"
				return
			}
		}
		if c.Scenario != "outdir" {
			a = append(a, "-f")
			d = append(d, "-f")
		}
		if c.Scenario == "force-over-existing" {
			// every output already exists and is LONGER than what will be written: -f must replace it entirely
			for k, v := range want {
				for _, pre := range []string{filepath.Join(work, "out"+sfx, k+".knz"), filepath.Join(work, "back", k)} {
					os.MkdirAll(filepath.Dir(pre), 0o755)
					os.WriteFile(pre, bytes.Repeat([]byte("stale previous content "), (len(v)+60000)/23+1), 0o644)
				}
			}
		}
		res := runCLI(cwd, nil, a...)
		if res.rc != 0 {
			o.msg = fmt.Sprintf("compressing the tree into an output directory (-i %s) failed: %s", inArg, show(res))
			return
		}
		if d2 := treeDiff(content, readTree(src)); d2 != "" {
			o.msg = "inputs changed by the compression run: " + d2
			return
		}
		if c.Scenario == "force-over-existing" {
			for k, v := range want {
				dec, err := decodeFile(filepath.Join(work, "out"+sfx, k+".knz"))
				if err != nil || !bytes.Equal(dec, v) {
					o.msg = fmt.Sprintf("-f over a longer existing output: %q does not decode to its source (%v)", k+".knz", err)
					return
				}
			}
		}
		res = runCLI(dcwd, nil, d...)
		if res.rc != 0 {
			o.msg = fmt.Sprintf("decompressing the output directory (-i %s) failed: %s", dArg, show(res))
			return
		}
		if d2 := treeDiff(want, readTree(filepath.Join(work, "back"))); d2 != "" {
			o.msg = fmt.Sprintf("tree not restored through -o directories (input spelled %q): %s", inArg, d2)
		}
	case "single", "pipe":
		f := c.Tree[0]
		in := filepath.Join("src", f.Path)
		if c.Scenario == "single" {
			res := runCLI(work, nil, append(cargs, "-i", in, "-o", "one.knz")...)
			if res.rc != 0 {
				o.msg = "compressing one file failed: " + show(res)
				return
			}
			res = runCLI(work, nil, "-d", "-v", "0", "-j", dj, "-i", "one.knz", "-o", "one.out")
			if res.rc != 0 {
				o.msg = "decompressing one file failed: " + show(res)
				return
			}
			got, _ := os.ReadFile(filepath.Join(work, "one.out"))
			if !bytes.Equal(got, content[f.Path]) {
				o.msg = fmt.Sprintf("single file not restored: %d bytes vs %d, first difference at %d", len(got), len(content[f.Path]), firstDiff(got, content[f.Path]))
			}
		} else {
			// the standard streams can be left implicit or named (the help documents 'stdin' and 'stdout', in any case)
			var pin, pout []string
			switch c.InSpell {
			case "dot-slash", "abs":
				pin = []string{"-i", "stdin"}
			case "trailing-slash":
				pin = []string{"-i", "STDIN"}
			case "dotdot":
				pout = []string{"-o", "stdout"}
			case "double-slash":
				pin, pout = []string{"-i", "stdin"}, []string{"-o", "STDOUT"}
			case "cwd-dot":
				pin, pout = []string{"-i", "Stdin"}, []string{"-o", "stdout"}
			}
			pa := append(append(append([]string{}, cargs...), pin...), pout...)
			dv := []string{"-v", "0"}
			if c.DJobs%2 == 1 {
				// default verbosity: documented to be reduced to 0 by the tool itself when the output is stdout
				pa = append(append(append([]string{"-c"}, c.Opts...), pin...), pout...)
				dv = nil
			}
			res := runCLI(work, content[f.Path], pa...)
			if res.rc != 0 {
				o.msg = fmt.Sprintf("compressing stdin to stdout (%v %v) failed: %s", pin, pout, show(cliRes{rc: res.rc, err: res.err}))
				return
			}
			da := append(append(append([]string{"-d"}, dv...), append([]string{"-j", dj}, pin...)...), pout...)
			res2 := runCLI(work, []byte(res.out), da...)
			if res2.rc != 0 {
				o.msg = fmt.Sprintf("decompressing stdin to stdout (streams named: %v %v; default verbosity: %v) failed: %s", pin, pout, dv == nil, show(cliRes{rc: res2.rc, err: res2.err}))
				return
			}
			if res2.rc != 0 {
				o.msg = "decompressing stdin to stdout failed: " + show(cliRes{rc: res2.rc, err: res2.err})
				return
			}
			if res2.out != string(content[f.Path]) {
				o.msg = fmt.Sprintf("pipe round trip returned different bytes: %d vs %d, first difference at %d", len(res2.out), len(content[f.Path]), firstDiff([]byte(res2.out), content[f.Path]))
			}
		}
	case "no-overwrite":
		// a pre-existing output and no -f: non-zero exit, existing file untouched
		f := c.Tree[0]
		existing := []byte("precious existing file\n")
		os.WriteFile(filepath.Join(src, f.Path+".knz"), existing, 0o644)
		res := runCLI(work, nil, append(cargs, "-i", filepath.Join("src", f.Path))...)
		now, _ := os.ReadFile(filepath.Join(src, f.Path+".knz"))
		if !bytes.Equal(now, existing) {
			o.msg = fmt.Sprintf("an existing output file was overwritten without -f (exit code %d)", res.rc)
			return
		}
		if res.rc == 0 {
			o.msg = "the run exited 0 although its output already existed and -f was not given"
			return
		}
		// same on the decompression side
		res = runCLI(work, nil, append(cargs, "-f", "-i", filepath.Join("src", f.Path), "-o", "z.knz")...)
		if res.rc != 0 {
			o.msg = "compression with -f failed: " + show(res)
			return
		}
		os.WriteFile(filepath.Join(work, "z"), existing, 0o644)
		res = runCLI(work, nil, "-d", "-v", "0", "-i", "z.knz")
		now, _ = os.ReadFile(filepath.Join(work, "z"))
		if !bytes.Equal(now, existing) || res.rc == 0 {
			o.msg = fmt.Sprintf("decompression overwrote / ignored an existing output without -f (exit code %d, file intact: %v)", res.rc, bytes.Equal(now, existing))
		}
	case "same-file":
		// output resolving to the input (same path, or a symlink to it) must be refused, input intact
		f := c.Tree[0]
		in := filepath.Join("src", f.Path)
		res := runCLI(work, nil, append(cargs, "-f", "-i", in, "-o", in)...)
		now, _ := os.ReadFile(filepath.Join(work, in))
		if !bytes.Equal(now, content[f.Path]) {
			o.msg = fmt.Sprintf("the tool wrote to its own input (-o equal to -i, exit code %d): input has %d bytes, had %d", res.rc, len(now), len(content[f.Path]))
			return
		}
		if res.rc == 0 {
			o.msg = "the tool exited 0 with the output path equal to the input path"
			return
		}
		os.Symlink(filepath.Base(f.Path), filepath.Join(work, filepath.Dir(in), "alias.knz"))
		res = runCLI(work, nil, append(cargs, "-f", "-i", in, "-o", filepath.Join(filepath.Dir(in), "alias.knz"))...)
		now, _ = os.ReadFile(filepath.Join(work, in))
		if !bytes.Equal(now, content[f.Path]) {
			o.msg = fmt.Sprintf("the tool wrote to its own input through a symlink (exit code %d)", res.rc)
			return
		}
		if res.rc == 0 {
			o.msg = "the tool exited 0 with the output being a symlink to the input"
		}
	case "rm":
		res := runCLI(work, nil, append(cargs, "--rm", "-i", "src")...)
		if res.rc != 0 {
			o.msg = "compression with --rm failed: " + show(res)
			return
		}
		after := readTree(src)
		for k, v := range content {
			if _, still := after[k]; still {
				o.msg = fmt.Sprintf("--rm run exited 0 but source %q still exists", k)
				return
			}
			dec, err := decodeFile(filepath.Join(src, k+".knz"))
			if err != nil || !bytes.Equal(dec, v) {
				o.msg = fmt.Sprintf("--rm removed %q but its output does not decode to it (%v)", k, err)
				return
			}
		}
	case "single-implicit":
		// one file addressed by its bare name from inside its directory, output names left to the tool
		f := c.Tree[0]
		dir := filepath.Join(src, filepath.Dir(f.Path))
		base := filepath.Base(f.Path)
		res := runCLI(dir, nil, append(cargs, "-i", base)...)
		if res.rc != 0 {
			o.msg = fmt.Sprintf("compressing %q by its bare name failed: %s", base, show(res))
			return
		}
		if err := os.Rename(filepath.Join(dir, base), filepath.Join(dir, base+".orig")); err != nil {
			o.label = "skipped:cannot-rename"
			return
		}
		dargs := []string{"-d", "-v", "0", "-j", dj, "-i", base + ".knz"}
		if c.KillFrac%2 == 1 {
			dargs = append(dargs, "--rm")
		}
		res = runCLI(dir, nil, dargs...)
		if res.rc != 0 {
			o.msg = fmt.Sprintf("decompressing %q failed: %s", base+".knz", show(res))
			return
		}
		got, err := os.ReadFile(filepath.Join(dir, base))
		if err != nil || !bytes.Equal(got, content[f.Path]) {
			_, e2 := os.Stat(filepath.Join(dir, base+".knz"))
			o.msg = fmt.Sprintf("%v exited 0 but %q was not restored (%v; %d bytes vs %d); archive still present: %v", dargs, base, err, len(got), len(content[f.Path]), e2 == nil)
		}
	case "rm-devfull":
		// the output can never be written (/dev/full rejects every write): --rm must leave the source alone
		if _, err := os.Stat("/dev/full"); err != nil {
			o.label = "skipped:no-dev-full"
			return
		}
		f := c.Tree[0]
		in := filepath.Join("src", f.Path)
		res := runCLI(work, nil, append(cargs, "--rm", "-f", "-i", in, "-o", "/dev/full")...)
		now, err := os.ReadFile(filepath.Join(work, in))
		if err != nil || !bytes.Equal(now, content[f.Path]) {
			o.msg = fmt.Sprintf("compression with --rm to an output that rejects every write (exit %d) removed or changed the source (%v)", res.rc, err)
			return
		}
		res = runCLI(work, nil, append(cargs, "-i", in, "-o", "one.knz")...)
		if res.rc != 0 {
			o.msg = "compressing one file failed: " + show(res)
			return
		}
		arch, _ := os.ReadFile(filepath.Join(work, "one.knz"))
		res = runCLI(work, nil, "-d", "-v", "0", "-j", dj, "--rm", "-f", "-i", "one.knz", "-o", "/dev/full")
		now, err = os.ReadFile(filepath.Join(work, "one.knz"))
		if len(content[f.Path]) > 0 && (err != nil || !bytes.Equal(now, arch)) {
			o.msg = fmt.Sprintf("decompression with --rm to an output that rejects every write (exit %d) removed or changed the archive (%v): the %d bytes of the file are lost", res.rc, err, len(content[f.Path]))
			return
		}
		o.nontrivial = len(content[f.Path]) > 0
	case "rm-fifo":
		// the output is a FIFO whose reader stalls: the tool cannot have completed its output while bytes are
		// still in flight, so the source may only disappear once everything has been handed to the pipe
		f := c.Tree[0]
		in := filepath.Join("src", f.Path)
		fifo := filepath.Join(work, "pipe")
		if err := syscall.Mkfifo(fifo, 0o644); err != nil {
			o.label = "skipped:no-fifo"
			return
		}
		decompress := c.KillFrac%2 == 1
		srcPath := filepath.Join(work, in)
		args := append(cargs, "--rm", "-f", "-i", in, "-o", "pipe")
		if decompress {
			res := runCLI(work, nil, append(cargs, "-i", in, "-o", "one.knz")...)
			if res.rc != 0 {
				o.msg = "compressing one file failed: " + show(res)
				return
			}
			srcPath = filepath.Join(work, "one.knz")
			args = []string{"-d", "-v", "0", "-j", dj, "--rm", "-f", "-i", "one.knz", "-o", "pipe"}
		}
		rd, err := os.OpenFile(fifo, os.O_RDWR, 0)
		if err != nil {
			o.label = "skipped:cannot-open-fifo"
			return
		}
		defer rd.Close()
		cmd := exec.Command(cliPath(), args...)
		cmd.Dir = work
		var eb bytes.Buffer
		cmd.Stderr = &eb
		if err := cmd.Start(); err != nil {
			o.label = "skipped:cannot-start"
			return
		}
		done := make(chan struct{})
		go func() { cmd.Wait(); close(done) }()
		exited := func() bool {
			select {
			case <-done:
				return true
			default:
				return false
			}
		}
		gone := func() bool { _, e := os.Lstat(srcPath); return e != nil }
		// stall: do not read; watch the source
		goneWhileStalled := false
		for t0 := time.Now(); time.Since(t0) < time.Duration(300+c.KillFrac)*time.Millisecond && !exited(); time.Sleep(time.Millisecond) {
			if gone() {
				goneWhileStalled = true
				break
			}
		}
		if goneWhileStalled && !exited() {
			cmd.Process.Signal(syscall.SIGKILL) // the moment "the process may be killed"
		}
		// drain what was handed to the pipe
		var got []byte
		buf := make([]byte, 1<<16)
		idle := 0
		for idle < 3 {
			rd.SetReadDeadline(time.Now().Add(60 * time.Millisecond))
			n, _ := rd.Read(buf)
			got = append(got, buf[:n]...)
			if n == 0 && exited() {
				idle++
			}
		}
		<-done
		if gone() {
			dec := got
			var derr error
			if !decompress {
				tmp := filepath.Join(work, "from-pipe.knz")
				os.WriteFile(tmp, got, 0o644)
				dec, derr = decodeFile(tmp)
			}
			if derr != nil || !bytes.Equal(dec, content[f.Path]) {
				o.msg = fmt.Sprintf("--rm with a stalled output pipe (%s): the source was removed (while the reader was stalled: %v) but only %d bytes had been handed to the pipe, which do not restore the %d-byte file (%v): data lost if the process dies at that moment",
					map[bool]string{true: "decompression", false: "compression"}[decompress], goneWhileStalled, len(got), len(content[f.Path]), derr)
				return
			}
		} else if now, err := os.ReadFile(srcPath); err != nil || (!decompress && !bytes.Equal(now, content[f.Path])) {
			o.msg = fmt.Sprintf("--rm with a stalled output pipe: the source changed (%v)", err)
			return
		}
		o.nontrivial = len(got) > 1<<16 || goneWhileStalled
		o.label = fmt.Sprintf("fifo:gone-while-stalled=%v", goneWhileStalled)
	case "rm-kill":
		// measure, then kill a fresh identical run after a fraction of that duration
		ref := filepath.Join(work, "ref")
		writeTree(filepath.Join(ref, "src"), c.Tree)
		m := runCLI(ref, nil, append(cargs, "--rm", "-i", "src")...)
		if m.rc != 0 {
			o.label = "skipped:rm-run-fails"
			return
		}
		delay := time.Duration(float64(m.dur) * float64(c.KillFrac) / 1000)
		cmd := exec.Command(cliPath(), append(cargs, "--rm", "-i", "src")...)
		cmd.Dir = work
		if err := cmd.Start(); err != nil {
			o.label = "skipped:cannot-start"
			return
		}
		time.Sleep(delay)
		cmd.Process.Signal(syscall.SIGKILL)
		cmd.Wait()
		after := readTree(src)
		removed, partial := 0, 0
		for k, v := range content {
			cur, exists := after[k]
			if exists && bytes.Equal(cur, v) {
				if _, p := after[k+".knz"]; p {
					partial++
				}
				continue
			}
			if exists {
				o.msg = fmt.Sprintf("after SIGKILL at %v of a %v --rm run, source %q exists with different content", delay, m.dur, k)
				return
			}
			removed++
			dec, err := decodeFile(filepath.Join(src, k+".knz"))
			if err != nil || !bytes.Equal(dec, v) {
				o.msg = fmt.Sprintf("after SIGKILL at %v of a %v --rm run, source %q is gone and its output does not decode to it (%v): data lost", delay, m.dur, k, err)
				return
			}
		}
		o.nontrivial = (removed > 0 && removed < len(content)) || partial > 0
		o.label = fmt.Sprintf("kill:removed=%d/%d", min(removed, 3), min(len(content), 3))
	}
	return
}

func c19Eval(r *vrt.Run, c C19Case, work string) c19Out {
	r.Inflight("cli", c)
	o := runC19(r, c, work)
	r.InflightDone()
	labels := []string{"scenario:" + c.Scenario, o.label, fmt.Sprintf("files:%d", min(len(c.Tree), 10))}
	if c.InSpell != "" {
		labels = append(labels, "input-spelled:"+c.InSpell)
	}
	if len(c.Tree) > 100 {
		labels = append(labels, "files:>100")
	}
	for i, a := range c.Opts {
		if a == "-l" && i+1 < len(c.Opts) {
			labels = append(labels, "level:"+c.Opts[i+1])
		}
		if a == "-t" {
			labels = append(labels, "explicit-codecs")
		}
	}
	r.Eval(vrt.HashOf(c), o.nontrivial, labels...)
	if o.nontrivial && r.WantSample() {
		var files []string
		for _, f := range c.Tree {
			if len(files) >= 12 {
				files = append(files, fmt.Sprintf("... %d files in all", len(c.Tree)))
				break
			}
			files = append(files, fmt.Sprintf("%s (%s)", f.Path, f.Data.String()))
		}
		r.Sample(map[string]any{"scenario": c.Scenario, "opts": strings.Join(c.Opts, " "), "decompress_jobs": c.DJobs, "input_spelling": c.InSpell, "files": files, "kill_frac_permille": c.KillFrac})
	}
	return o
}

var c19Names = []string{"a.txt", "data.bin", "with space.dat", "x.y.z", "archive.knz", "noext", "UPPER.TXT", ".hidden", "long_name_0123456789_abcdefghij.log", "é-utf8.txt",
	"none", "stdout", "NONE", "b", "back\\slash.txt", "semi;colon & amp.txt", "-dash-first"}
var c19Spells = []string{"", "", "dot-slash", "trailing-slash", "dot-slash-trailing", "abs", "dotdot", "double-slash", "cwd-dot", "norec", "named-dot"}
var c19Dirs = []string{"", "", "sub", "sub/deeper", "other dir", "sub/deeper/deepest", "back\\slash", "sub/dir.with.dots", "sub/trailing.dot."}

func drawC19(t *rapid.T, maxFile int, scenarios []string) C19Case {
	var c C19Case
	c.Scenario = rapid.SampledFrom(scenarios).Draw(t, "scenario")
	n := rapid.IntRange(1, 10).Draw(t, "nfiles")
	used := map[string]bool{}
	for i := 0; i < n; i++ {
		p := filepath.Join(rapid.SampledFrom(c19Dirs).Draw(t, "dir"), rapid.SampledFrom(c19Names).Draw(t, "name"))
		if used[p] || used[p+".knz"] || used[strings.TrimSuffix(p, ".knz")] && strings.HasSuffix(p, ".knz") {
			continue
		}
		if c.Scenario == "inplace" || c.Scenario == "rm" || c.Scenario == "rm-kill" {
			// dot files are skipped only on request; a name ending in .knz would collide with outputs
			if strings.HasSuffix(p, ".knz") {
				continue
			}
		}
		used[p] = true
		rc := gen.DrawRecipe(t, maxFile, "data")
		if rapid.IntRange(0, 7).Draw(t, "empty") == 0 {
			rc.Len = 0
		}
		c.Tree = append(c.Tree, TreeFile{Path: p, Data: rc})
	}
	if len(c.Tree) == 0 {
		c.Tree = []TreeFile{{Path: "a.txt", Data: gen.Recipe{Kind: gen.KText, Len: 5000, Seed: 1}}}
	}
	switch c.Scenario {
	case "pipe":
		// reused as "how the standard streams are named" (see the pipe scenario)
		c.InSpell = rapid.SampledFrom([]string{"", "dot-slash", "trailing-slash", "dotdot", "double-slash", "cwd-dot", "abs"}).Draw(t, "pipeSpell")
	case "inplace", "outdir", "outdir-force", "force-over-existing":
		c.InSpell = rapid.SampledFrom(c19Spells).Draw(t, "inSpell")
		if rapid.IntRange(0, 11).Draw(t, "many") == 0 {
			// a large tree of tiny files: more files than any internal queue or worker pool
			many := rapid.IntRange(100, 400).Draw(t, "nmany")
			for i := 0; i < many; i++ {
				c.Tree = append(c.Tree, TreeFile{Path: fmt.Sprintf("m%02d/f%03d.txt", i%7, i), Data: gen.Recipe{Kind: gen.KText, Len: (i * 37) % 300, Seed: uint64(i)}})
			}
		}
	}
	heavy := false
	if rapid.Bool().Draw(t, "useLevel") {
		lv := rapid.IntRange(0, 9).Draw(t, "level")
		heavy = lv >= 7
		c.Opts = append(c.Opts, "-l", fmt.Sprint(lv))
	} else {
		tr := gen.DrawChain(t, 5, "transform")
		en := gen.DrawEntropy(t, false, "entropy")
		heavy = en == "CM" || en == "TPAQ" || en == "TPAQX"
		if rapid.Bool().Draw(t, "lowercase") {
			tr, en = strings.ToLower(tr), strings.ToLower(en)
		}
		c.Opts = append(c.Opts, "-t", tr, "-e", en)
	}
	blocks := []string{"1k", "4096", "64k", "100000", "65552", "1m", "4m", "auto", "262144"}
	if heavy {
		blocks = []string{"64k", "100000", "1m", "auto"}
	}
	if rapid.IntRange(0, 3).Draw(t, "useBlock") != 0 {
		c.Opts = append(c.Opts, "-b", rapid.SampledFrom(blocks).Draw(t, "block"))
	}
	c.Opts = append(c.Opts, "-j", fmt.Sprint(rapid.IntRange(1, 16).Draw(t, "jobs")))
	switch rapid.IntRange(0, 4).Draw(t, "ck") {
	case 1:
		c.Opts = append(c.Opts, "-x")
	case 2:
		c.Opts = append(c.Opts, "-x32")
	case 3:
		c.Opts = append(c.Opts, "-x64")
	}
	if rapid.IntRange(0, 5).Draw(t, "skip") == 0 {
		c.Opts = append(c.Opts, "-s")
	}
	c.DJobs = rapid.IntRange(1, 16).Draw(t, "djobs")
	if heavy {
		for i := range c.Tree {
			c.Tree[i].Data.Len = min(c.Tree[i].Data.Len, 60000)
		}
	}
	c.KillFrac = rapid.IntRange(0, 1000).Draw(t, "killFrac")
	return c
}

func TestC19(t *testing.T) {
	r := start(t, "C19")
	if cliPath() == "" {
		t.Fatalf("VERIF_CLI not set: vcheck builds the command-line tool from /repo/v2/app before starting this check")
	}
	work := filepath.Join(r.Out, fmt.Sprintf("cli-work-%d", r.Shard))
	defer os.RemoveAll(work)
	for _, p := range r.ReplayFiles() {
		ff, err := vrt.LoadFail(p)
		if err != nil {
			t.Fatalf("unreadable replay file %s: %v", p, err)
		}
		var c C19Case
		if err := json.Unmarshal(ff.Case, &c); err != nil {
			t.Fatalf("bad case in %s: %v", p, err)
		}
		if o := c19Eval(r, c, work); o.msg != "" {
			r.RecordFailure("cli", c, p, o.msg)
			t.Fatalf("replay %s: %s", p, o.msg)
		}
		r.Label("replayed")
	}
	if r.ReplayOnly() {
		return
	}
	r.Rapid(t, "round-trips-and-safety", 150, 4000, func(t *rapid.T) {
		c := drawC19(t, r.Pick(200*1024, 3<<20), []string{"inplace", "inplace", "outdir", "outdir-force", "force-over-existing", "single", "single-implicit", "pipe", "no-overwrite", "same-file", "rm", "rm-devfull", "rm-fifo"})
		if o := c19Eval(r, c, work); o.msg != "" {
			r.Violation(t, "cli", c, "%s", o.msg)
		}
	})
	r.Rapid(t, "kill-points", 90, 2500, func(t *rapid.T) {
		c := drawC19(t, r.Pick(400*1024, 3<<20), []string{"rm-kill"})
		if o := c19Eval(r, c, work); o.msg != "" {
			r.Violation(t, "cli", c, "%s", o.msg)
		}
	})
}
