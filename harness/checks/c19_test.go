package checks

import (
	"bytes"
	"encoding/json"
	"fmt"
	"os"
	"os/exec"
	"path/filepath"
	"sort"
	"strings"
	"syscall"
	"testing"
	"time"

	kio "github.com/flanglet/kanzi-go/v2/io"
	"pgregory.net/rapid"

	"verif/harness/fio"
	"verif/harness/gen"
	"verif/harness/vrt"
)

// TreeFile is one regular file of a generated tree.
type TreeFile struct {
	Path string     `json:"path"`
	Data gen.Recipe `json:"data"`
}

// C19Case: a file tree, tool options, a scenario.
type C19Case struct {
	Tree     []TreeFile `json:"tree"`
	Opts     []string   `json:"opts"`     // compression options (-l N | -t X -e Y, -b, -j, -x.., -s)
	DJobs    int        `json:"djobs"`    // -j of the decompression run
	Scenario string     `json:"scenario"` // inplace, outdir, outdir-force, single, pipe, no-overwrite, same-file, rm, rm-kill
	KillMs   int        `json:"kill_ms,omitempty"`   // rm-kill: delay before SIGKILL in microseconds-ish units (scaled by the measured duration)
	KillFrac int        `json:"kill_frac,omitempty"` // rm-kill: per-mille of the measured duration
}

func cliPath() string { return os.Getenv("VERIF_CLI") }

type cliRes struct {
	rc       int
	out, err string
	dur      time.Duration
}

func runCLI(dir string, stdin []byte, args ...string) cliRes {
	cmd := exec.Command(cliPath(), args...)
	cmd.Dir = dir
	if stdin != nil {
		cmd.Stdin = bytes.NewReader(stdin)
	}
	var o, e bytes.Buffer
	cmd.Stdout, cmd.Stderr = &o, &e
	t0 := time.Now()
	err := cmd.Run()
	res := cliRes{out: o.String(), err: e.String(), dur: time.Since(t0)}
	if err != nil {
		res.rc = -1
		if ee, ok := err.(*exec.ExitError); ok {
			res.rc = ee.ExitCode()
		}
	}
	return res
}

func writeTree(root string, tree []TreeFile) (map[string][]byte, error) {
	content := map[string][]byte{}
	for _, f := range tree {
		p := filepath.Join(root, f.Path)
		if err := os.MkdirAll(filepath.Dir(p), 0o755); err != nil {
			return nil, err
		}
		d := f.Data.Expand()
		if err := os.WriteFile(p, d, 0o644); err != nil {
			return nil, err
		}
		content[f.Path] = d
	}
	return content, nil
}

func readTree(root string) map[string][]byte {
	out := map[string][]byte{}
	filepath.Walk(root, func(p string, info os.FileInfo, err error) error {
		if err == nil && info.Mode().IsRegular() {
			rel, _ := filepath.Rel(root, p)
			b, _ := os.ReadFile(p)
			out[rel] = b
		}
		return nil
	})
	return out
}

func treeDiff(want, got map[string][]byte) string {
	var names []string
	for k := range want {
		names = append(names, k)
	}
	sort.Strings(names)
	for _, k := range names {
		g, ok := got[k]
		if !ok {
			return fmt.Sprintf("file %q is missing", k)
		}
		if !bytes.Equal(g, want[k]) {
			return fmt.Sprintf("file %q differs: %d bytes vs %d, first difference at %d", k, len(g), len(want[k]), firstDiff(g, want[k]))
		}
	}
	for k := range got {
		if _, ok := want[k]; !ok {
			return fmt.Sprintf("unexpected extra file %q", k)
		}
	}
	return ""
}

// decodeFile decodes a .knz file with the library Reader (the oracle for the kill-point clause).
func decodeFile(path string) ([]byte, error) {
	b, err := os.ReadFile(path)
	if err != nil {
		return nil, err
	}
	var out []byte
	err = guard(func() error {
		rd, e := kio.NewReader(fio.NewSource(b), 1)
		if e != nil {
			return e
		}
		defer rd.Close()
		var e2 error
		out, e2 = Drain(rd, nil)
		return e2
	})
	return out, err
}

type c19Out struct {
	msg        string
	nontrivial bool
	label      string
}

func runC19(r *vrt.Run, c C19Case, work string) (o c19Out) {
	os.RemoveAll(work)
	defer os.RemoveAll(work)
	src := filepath.Join(work, "src")
	content, err := writeTree(src, c.Tree)
	if err != nil {
		o.label = "skipped:cannot-create-tree"
		return
	}
	hasSub, hasBlock := false, false
	for _, f := range c.Tree {
		if strings.Contains(f.Path, "/") {
			hasSub = true
		}
		if f.Data.Len >= 1024 {
			hasBlock = true
		}
	}
	o.nontrivial = len(c.Tree) >= 2 && hasSub && hasBlock
	dj := fmt.Sprintf("%d", max(1, c.DJobs))
	cargs := append([]string{"-c", "-v", "0"}, c.Opts...)
	show := func(res cliRes) string {
		return fmt.Sprintf("exit %d; stdout: %s; stderr: %s", res.rc, firstLines(strings.TrimSpace(res.out), 6), firstLines(strings.TrimSpace(res.err), 12))
	}
	switch c.Scenario {
	case "inplace":
		res := runCLI(work, nil, append(cargs, "-i", "src")...)
		if res.rc != 0 {
			o.msg = "compressing the tree in place failed: " + show(res)
			return
		}
		after := readTree(src)
		for k, v := range content {
			if !bytes.Equal(after[k], v) {
				o.msg = fmt.Sprintf("input file %q was modified by the compression run", k)
				return
			}
			if _, ok := after[k+".knz"]; !ok {
				o.msg = fmt.Sprintf("no output %q after a run that exited 0", k+".knz")
				return
			}
		}
		// move the compressed files to a fresh tree and decompress there
		comp := filepath.Join(work, "comp")
		for k := range content {
			os.MkdirAll(filepath.Dir(filepath.Join(comp, k)), 0o755)
			if err := os.Rename(filepath.Join(src, k+".knz"), filepath.Join(comp, k+".knz")); err != nil {
				o.msg = "cannot move output: " + err.Error()
				return
			}
		}
		res = runCLI(work, nil, "-d", "-v", "0", "-j", dj, "-i", "comp")
		if res.rc != 0 {
			o.msg = "decompressing the tree failed: " + show(res)
			return
		}
		got := readTree(comp)
		for k := range got {
			if strings.HasSuffix(k, ".knz") {
				delete(got, k)
			}
		}
		if d := treeDiff(content, got); d != "" {
			o.msg = "tree not restored: " + d
		}
	case "outdir", "outdir-force":
		os.MkdirAll(filepath.Join(work, "out"), 0o755)
		os.MkdirAll(filepath.Join(work, "back"), 0o755)
		a := append(cargs, "-i", "src", "-o", "out")
		d := []string{"-d", "-v", "0", "-j", dj, "-i", "out", "-o", "back"}
		if c.Scenario == "outdir-force" {
			a = append(a, "-f")
			d = append(d, "-f")
		}
		res := runCLI(work, nil, a...)
		if res.rc != 0 {
			o.msg = "compressing the tree into an output directory failed: " + show(res)
			return
		}
		if d2 := treeDiff(content, readTree(src)); d2 != "" {
			o.msg = "inputs changed by the compression run: " + d2
			return
		}
		res = runCLI(work, nil, d...)
		if res.rc != 0 {
			o.msg = "decompressing the output directory failed: " + show(res)
			return
		}
		if d2 := treeDiff(content, readTree(filepath.Join(work, "back"))); d2 != "" {
			o.msg = "tree not restored through -o directories: " + d2
		}
	case "single", "pipe":
		f := c.Tree[0]
		in := filepath.Join("src", f.Path)
		if c.Scenario == "single" {
			res := runCLI(work, nil, append(cargs, "-i", in, "-o", "one.knz")...)
			if res.rc != 0 {
				o.msg = "compressing one file failed: " + show(res)
				return
			}
			res = runCLI(work, nil, "-d", "-v", "0", "-j", dj, "-i", "one.knz", "-o", "one.out")
			if res.rc != 0 {
				o.msg = "decompressing one file failed: " + show(res)
				return
			}
			got, _ := os.ReadFile(filepath.Join(work, "one.out"))
			if !bytes.Equal(got, content[f.Path]) {
				o.msg = fmt.Sprintf("single file not restored: %d bytes vs %d, first difference at %d", len(got), len(content[f.Path]), firstDiff(got, content[f.Path]))
			}
		} else {
			res := runCLI(work, content[f.Path], cargs...)
			if res.rc != 0 {
				o.msg = "compressing stdin to stdout failed: " + show(cliRes{rc: res.rc, err: res.err})
				return
			}
			res2 := runCLI(work, []byte(res.out), "-d", "-v", "0", "-j", dj)
			if res2.rc != 0 {
				o.msg = "decompressing stdin to stdout failed: " + show(cliRes{rc: res2.rc, err: res2.err})
				return
			}
			if res2.out != string(content[f.Path]) {
				o.msg = fmt.Sprintf("pipe round trip returned different bytes: %d vs %d, first difference at %d", len(res2.out), len(content[f.Path]), firstDiff([]byte(res2.out), content[f.Path]))
			}
		}
	case "no-overwrite":
		// a pre-existing output and no -f: non-zero exit, existing file untouched
		f := c.Tree[0]
		existing := []byte("precious existing file\n")
		os.WriteFile(filepath.Join(src, f.Path+".knz"), existing, 0o644)
		res := runCLI(work, nil, append(cargs, "-i", filepath.Join("src", f.Path))...)
		now, _ := os.ReadFile(filepath.Join(src, f.Path+".knz"))
		if !bytes.Equal(now, existing) {
			o.msg = fmt.Sprintf("an existing output file was overwritten without -f (exit code %d)", res.rc)
			return
		}
		if res.rc == 0 {
			o.msg = "the run exited 0 although its output already existed and -f was not given"
			return
		}
		// same on the decompression side
		res = runCLI(work, nil, append(cargs, "-f", "-i", filepath.Join("src", f.Path), "-o", "z.knz")...)
		if res.rc != 0 {
			o.msg = "compression with -f failed: " + show(res)
			return
		}
		os.WriteFile(filepath.Join(work, "z"), existing, 0o644)
		res = runCLI(work, nil, "-d", "-v", "0", "-i", "z.knz")
		now, _ = os.ReadFile(filepath.Join(work, "z"))
		if !bytes.Equal(now, existing) || res.rc == 0 {
			o.msg = fmt.Sprintf("decompression overwrote / ignored an existing output without -f (exit code %d, file intact: %v)", res.rc, bytes.Equal(now, existing))
		}
	case "same-file":
		// output resolving to the input (same path, or a symlink to it) must be refused, input intact
		f := c.Tree[0]
		in := filepath.Join("src", f.Path)
		res := runCLI(work, nil, append(cargs, "-f", "-i", in, "-o", in)...)
		now, _ := os.ReadFile(filepath.Join(work, in))
		if !bytes.Equal(now, content[f.Path]) {
			o.msg = fmt.Sprintf("the tool wrote to its own input (-o equal to -i, exit code %d): input has %d bytes, had %d", res.rc, len(now), len(content[f.Path]))
			return
		}
		if res.rc == 0 {
			o.msg = "the tool exited 0 with the output path equal to the input path"
			return
		}
		os.Symlink(filepath.Base(f.Path), filepath.Join(work, filepath.Dir(in), "alias.knz"))
		res = runCLI(work, nil, append(cargs, "-f", "-i", in, "-o", filepath.Join(filepath.Dir(in), "alias.knz"))...)
		now, _ = os.ReadFile(filepath.Join(work, in))
		if !bytes.Equal(now, content[f.Path]) {
			o.msg = fmt.Sprintf("the tool wrote to its own input through a symlink (exit code %d)", res.rc)
			return
		}
		if res.rc == 0 {
			o.msg = "the tool exited 0 with the output being a symlink to the input"
		}
	case "rm":
		res := runCLI(work, nil, append(cargs, "--rm", "-i", "src")...)
		if res.rc != 0 {
			o.msg = "compression with --rm failed: " + show(res)
			return
		}
		after := readTree(src)
		for k, v := range content {
			if _, still := after[k]; still {
				o.msg = fmt.Sprintf("--rm run exited 0 but source %q still exists", k)
				return
			}
			dec, err := decodeFile(filepath.Join(src, k+".knz"))
			if err != nil || !bytes.Equal(dec, v) {
				o.msg = fmt.Sprintf("--rm removed %q but its output does not decode to it (%v)", k, err)
				return
			}
		}
	case "rm-kill":
		// measure, then kill a fresh identical run after a fraction of that duration
		ref := filepath.Join(work, "ref")
		writeTree(filepath.Join(ref, "src"), c.Tree)
		m := runCLI(ref, nil, append(cargs, "--rm", "-i", "src")...)
		if m.rc != 0 {
			o.label = "skipped:rm-run-fails"
			return
		}
		delay := time.Duration(float64(m.dur) * float64(c.KillFrac) / 1000)
		cmd := exec.Command(cliPath(), append(cargs, "--rm", "-i", "src")...)
		cmd.Dir = work
		if err := cmd.Start(); err != nil {
			o.label = "skipped:cannot-start"
			return
		}
		time.Sleep(delay)
		cmd.Process.Signal(syscall.SIGKILL)
		cmd.Wait()
		after := readTree(src)
		removed, partial := 0, 0
		for k, v := range content {
			cur, exists := after[k]
			if exists && bytes.Equal(cur, v) {
				if _, p := after[k+".knz"]; p {
					partial++
				}
				continue
			}
			if exists {
				o.msg = fmt.Sprintf("after SIGKILL at %v of a %v --rm run, source %q exists with different content", delay, m.dur, k)
				return
			}
			removed++
			dec, err := decodeFile(filepath.Join(src, k+".knz"))
			if err != nil || !bytes.Equal(dec, v) {
				o.msg = fmt.Sprintf("after SIGKILL at %v of a %v --rm run, source %q is gone and its output does not decode to it (%v): data lost", delay, m.dur, k, err)
				return
			}
		}
		o.nontrivial = (removed > 0 && removed < len(content)) || partial > 0
		o.label = fmt.Sprintf("kill:removed=%d/%d", min(removed, 3), min(len(content), 3))
	}
	return
}

func c19Eval(r *vrt.Run, c C19Case, work string) c19Out {
	r.Inflight("cli", c)
	o := runC19(r, c, work)
	r.InflightDone()
	labels := []string{"scenario:" + c.Scenario, o.label, fmt.Sprintf("files:%d", min(len(c.Tree), 10))}
	for i, a := range c.Opts {
		if a == "-l" && i+1 < len(c.Opts) {
			labels = append(labels, "level:"+c.Opts[i+1])
		}
		if a == "-t" {
			labels = append(labels, "explicit-codecs")
		}
	}
	r.Eval(vrt.HashOf(c), o.nontrivial, labels...)
	if o.nontrivial && r.WantSample() {
		var files []string
		for _, f := range c.Tree {
			files = append(files, fmt.Sprintf("%s (%s)", f.Path, f.Data.String()))
		}
		r.Sample(map[string]any{"scenario": c.Scenario, "opts": strings.Join(c.Opts, " "), "decompress_jobs": c.DJobs, "files": files, "kill_frac_permille": c.KillFrac})
	}
	return o
}

var c19Names = []string{"a.txt", "data.bin", "with space.dat", "x.y.z", "archive.knz", "noext", "UPPER.TXT", ".hidden", "long_name_0123456789_abcdefghij.log", "é-utf8.txt"}
var c19Dirs = []string{"", "", "sub", "sub/deeper", "other dir", "sub/deeper/deepest"}

func drawC19(t *rapid.T, maxFile int, scenarios []string) C19Case {
	var c C19Case
	c.Scenario = rapid.SampledFrom(scenarios).Draw(t, "scenario")
	n := rapid.IntRange(1, 10).Draw(t, "nfiles")
	used := map[string]bool{}
	for i := 0; i < n; i++ {
		p := filepath.Join(rapid.SampledFrom(c19Dirs).Draw(t, "dir"), rapid.SampledFrom(c19Names).Draw(t, "name"))
		if used[p] || used[p+".knz"] || used[strings.TrimSuffix(p, ".knz")] && strings.HasSuffix(p, ".knz") {
			continue
		}
		if c.Scenario == "inplace" || c.Scenario == "rm" || c.Scenario == "rm-kill" {
			// dot files are skipped only on request; a name ending in .knz would collide with outputs
			if strings.HasSuffix(p, ".knz") {
				continue
			}
		}
		used[p] = true
		rc := gen.DrawRecipe(t, maxFile, "data")
		if rapid.IntRange(0, 7).Draw(t, "empty") == 0 {
			rc.Len = 0
		}
		c.Tree = append(c.Tree, TreeFile{Path: p, Data: rc})
	}
	if len(c.Tree) == 0 {
		c.Tree = []TreeFile{{Path: "a.txt", Data: gen.Recipe{Kind: gen.KText, Len: 5000, Seed: 1}}}
	}
	heavy := false
	if rapid.Bool().Draw(t, "useLevel") {
		lv := rapid.IntRange(0, 9).Draw(t, "level")
		heavy = lv >= 7
		c.Opts = append(c.Opts, "-l", fmt.Sprint(lv))
	} else {
		tr := gen.DrawChain(t, 5, "transform")
		en := gen.DrawEntropy(t, false, "entropy")
		heavy = en == "CM" || en == "TPAQ" || en == "TPAQX"
		if rapid.Bool().Draw(t, "lowercase") {
			tr, en = strings.ToLower(tr), strings.ToLower(en)
		}
		c.Opts = append(c.Opts, "-t", tr, "-e", en)
	}
	blocks := []string{"1k", "4096", "64k", "100000", "65552", "1m", "4m", "auto", "262144"}
	if heavy {
		blocks = []string{"64k", "100000", "1m", "auto"}
	}
	if rapid.IntRange(0, 3).Draw(t, "useBlock") != 0 {
		c.Opts = append(c.Opts, "-b", rapid.SampledFrom(blocks).Draw(t, "block"))
	}
	c.Opts = append(c.Opts, "-j", fmt.Sprint(rapid.IntRange(1, 16).Draw(t, "jobs")))
	switch rapid.IntRange(0, 4).Draw(t, "ck") {
	case 1:
		c.Opts = append(c.Opts, "-x")
	case 2:
		c.Opts = append(c.Opts, "-x32")
	case 3:
		c.Opts = append(c.Opts, "-x64")
	}
	if rapid.IntRange(0, 5).Draw(t, "skip") == 0 {
		c.Opts = append(c.Opts, "-s")
	}
	c.DJobs = rapid.IntRange(1, 16).Draw(t, "djobs")
	if heavy {
		for i := range c.Tree {
			c.Tree[i].Data.Len = min(c.Tree[i].Data.Len, 60000)
		}
	}
	c.KillFrac = rapid.IntRange(0, 1000).Draw(t, "killFrac")
	return c
}

func TestC19(t *testing.T) {
	r := start(t, "C19")
	if cliPath() == "" {
		t.Fatalf("VERIF_CLI not set: vcheck builds the command-line tool from /repo/v2/app before starting this check")
	}
	work := filepath.Join(r.Out, fmt.Sprintf("cli-work-%d", r.Shard))
	defer os.RemoveAll(work)
	for _, p := range r.ReplayFiles() {
		ff, err := vrt.LoadFail(p)
		if err != nil {
			t.Fatalf("unreadable replay file %s: %v", p, err)
		}
		var c C19Case
		if err := json.Unmarshal(ff.Case, &c); err != nil {
			t.Fatalf("bad case in %s: %v", p, err)
		}
		if o := c19Eval(r, c, work); o.msg != "" {
			r.RecordFailure("cli", c, p, o.msg)
			t.Fatalf("replay %s: %s", p, o.msg)
		}
		r.Label("replayed")
	}
	if r.ReplayOnly() {
		return
	}
	r.Rapid(t, "round-trips-and-safety", 110, 3000, func(t *rapid.T) {
		c := drawC19(t, r.Pick(200*1024, 3<<20), []string{"inplace", "inplace", "outdir", "outdir-force", "single", "pipe", "no-overwrite", "same-file", "rm"})
		if o := c19Eval(r, c, work); o.msg != "" {
			r.Violation(t, "cli", c, "%s", o.msg)
		}
	})
	r.Rapid(t, "kill-points", 90, 2500, func(t *rapid.T) {
		c := drawC19(t, r.Pick(400*1024, 3<<20), []string{"rm-kill"})
		if o := c19Eval(r, c, work); o.msg != "" {
			r.Violation(t, "cli", c, "%s", o.msg)
		}
	})
}
