//go:build verif

package checks

import (
	"bytes"
	"encoding/json"
	"fmt"
	"io"
	"testing"

	"pgregory.net/rapid"

	"verif/harness/fio"
	"verif/harness/gen"
	"verif/harness/kfmt"
	"verif/harness/vrt"
)

// C05Variant is one way of decoding the same stream.
type C05Variant struct {
	Jobs     uint   `json:"jobs"`
	ReadBufs []int  `json:"read_bufs,omitempty"`
	Perturb  uint64 `json:"perturb,omitempty"`
	Level    int    `json:"level,omitempty"`
}

// C05Case: a valid stream (optionally with one damaged block), several decoders.
type C05Case struct {
	Cfg      gen.Config   `json:"cfg"`
	Data     gen.Recipe   `json:"data"`
	Bad      int          `json:"bad,omitempty"`      // 1-based block made to fail (0 = healthy stream)
	BadKind  string       `json:"bad_kind,omitempty"` // "payload" (checksum/codec failure, slow) or "prelen" (forged pre-entropy length, fast failure)
	Variants []C05Variant `json:"variants"`
}

type c05Out struct {
	msg        string
	nontrivial bool
	maxLive    int32
	blocks     int
}

func runC05(r *vrt.Run, c C05Case) (o c05Out) {
	data := markedData(c.Data, c.Cfg.BlockSize)
	r.Inflight("decode-order", c)
	defer r.InflightDone()
	stream, err := Compress(data, c.Cfg, nil)
	if err != nil {
		r.Label("skipped:compress-fails")
		return
	}
	st, err := parseStream(stream, c.Cfg)
	if err != nil {
		r.Label("skipped:kfmt")
		return
	}
	o.blocks = len(st.Blocks)
	B := int(c.Cfg.BlockSize)
	f := 0
	if c.Bad > 0 && len(st.Blocks) > 0 {
		f = (c.Bad-1)%len(st.Blocks) + 1
		k := st.Blocks[f-1]
		bits := kfmt.FromBytes(stream)
		if c.BadKind == "prelen" {
			// forged pre-entropy length 0: rejected right after the shared read
			bits.Put(k.PreLenStart, k.PreLenEnd-k.PreLenStart, 0)
		} else {
			if k.End-k.PayloadStart < 16 {
				r.Label("skipped:tiny-payload")
				return
			}
			mid := (k.PayloadStart + k.End) / 2
			bits.Put(mid, 8, ^mustRead(bits, mid, 8))
		}
		stream = bits.Bytes()
		// a flipped payload byte does not always change the decoded content (unused bits): the single-job
		// decode tells whether block f really fails (the failure is in the data, hence deterministic)
		if out, err := Decompress(stream, c.Cfg, 1, nil); err == nil && bytes.Equal(out, data) {
			r.Label("damage-harmless")
			f = 0
		}
	} else {
		// healthy stream: the plain single-job decode must work, otherwise it is C01's business (e.g. KF-14)
		if out, err := Decompress(stream, c.Cfg, 1, nil); err != nil || !bytes.Equal(out, data) {
			r.Label("skipped:plain-roundtrip-fails")
			return
		}
	}
	for i, v := range c.Variants {
		r.Tick()
		p := newPerturb(v.Perturb, v.Level)
		var tr ReadTrace
		var cerr error
		withPerturb(p, func() {
			rd, e := openReader(fio.NewSource(stream), c.Cfg, max(v.Jobs, 1), nil, nil)
			if e != nil {
				cerr = e
				return
			}
			tr = ReadOn(rd, v.ReadBufs, 8, 1<<20)
			guard(func() error { rd.Close(); return nil })
		})
		if p.MaxLive > o.maxLive {
			o.maxLive = p.MaxLive
		}
		desc := fmt.Sprintf("variant %d (%s)", i, jsonOf(v))
		if cerr != nil {
			o.msg = desc + ": reader construction failed: " + cerr.Error()
			return
		}
		if tr.Panic != "" {
			o.msg = desc + ": Read faulted: " + tr.Panic
			return
		}
		if !isPrefix(tr.Acc, data) {
			o.msg = fmt.Sprintf("%s: returned bytes are not a prefix of the original: first difference at %d (%d returned, block size %d => block %d); first error %v after %d bytes", desc, firstDiff(tr.Acc, data), len(tr.Acc), B, firstDiff(tr.Acc, data)/B+1, tr.FirstErr, tr.AccAtErr)
			return
		}
		if f == 0 {
			if tr.FirstErr != nil {
				o.msg = fmt.Sprintf("%s: error on a valid stream after %d/%d bytes: %v", desc, len(tr.Acc), len(data), tr.FirstErr)
				return
			}
			if !tr.SawEOF || !bytes.Equal(tr.Acc, data) {
				o.msg = fmt.Sprintf("%s: %d of %d bytes delivered (EOF=%v): blocks dropped or duplicated", desc, len(tr.Acc), len(data), tr.SawEOF)
				return
			}
			continue
		}
		// block f fails, deterministically (the failure is in the data)
		limit := (f - 1) * B
		if len(tr.Acc) > limit {
			o.msg = fmt.Sprintf("%s: block %d is damaged but %d bytes were returned (limit %d): data from the failed block or beyond was delivered", desc, f, len(tr.Acc), limit)
			return
		}
		if tr.FirstErr == nil {
			o.msg = fmt.Sprintf("%s: block %d is damaged but no Read call reported an error (%d bytes, EOF=%v)", desc, f, len(tr.Acc), tr.SawEOF)
			return
		}
		// the call that covers block f (the first call made once (f-1)*B bytes were delivered) must report an error;
		// an error reported earlier is tolerated, a clean EOF or silent success in its place is not
		accBefore := 0
		covered := false
		for _, cl := range tr.Calls {
			if accBefore == limit && cl.Buf > 0 {
				covered = true
				if cl.Err == "" || cl.Err == io.EOF.Error() {
					o.msg = fmt.Sprintf("%s: the Read call that covers the damaged block %d returned (%d, %q) instead of the error", desc, f, cl.N, cl.Err)
					return
				}
				break
			}
			accBefore += cl.N
			if cl.Err != "" && cl.Err != io.EOF.Error() && accBefore < limit {
				// error reported early (before the preceding blocks were handed out): tolerated, later calls are checked by the prefix/limit rules
			}
		}
		_ = covered
	}
	o.nontrivial = o.blocks >= 2 && (o.maxLive >= 2 || (f > 0 && o.maxLive >= 1))
	if c.Cfg.BlockSize > 4<<20 && c.Cfg.Hint > 0 && len(data) > 4<<20 {
		o.nontrivial = true // jobs inside a block: the reader has more jobs than blocks and knows it
	}
	if f > 0 {
		// failure case: non-trivial when the failed block is not the first of its batch for some variant
		nt := false
		for _, v := range c.Variants {
			if v.Jobs > 1 && (f-1)%int(v.Jobs) != 0 {
				nt = true
			}
		}
		o.nontrivial = nt
	}
	return
}

func mustRead(b *kfmt.Bits, pos, n int) uint64 {
	v, _ := b.Read(pos, n)
	return v
}

func c05Eval(r *vrt.Run, c C05Case) c05Out {
	o := runC05(r, c)
	mode := "healthy"
	if c.Bad > 0 {
		mode = "damaged:" + c.BadKind
	}
	labels := []string{"mode:" + mode, "entropy:" + c.Cfg.Entropy, fmt.Sprintf("maxlive:%d", min(int(o.maxLive), 8)), "hint:" + c.Cfg.HintClass}
	for _, v := range c.Variants {
		labels = append(labels, "rjobs:"+jobsClass(v.Jobs))
	}
	r.Eval(vrt.HashOf(c), o.nontrivial, labels...)
	if o.nontrivial && r.WantSample() {
		r.Sample(map[string]any{"cfg": c.Cfg.String(), "data": c.Data.String(), "blocks": o.blocks, "damaged_block": c.Bad, "damage": c.BadKind, "max_tasks_alive": o.maxLive, "variants": c.Variants})
	}
	return o
}

func drawC05(t *rapid.T, maxBlock int) C05Case {
	var c C05Case
	c.Cfg = gen.DrawConfig(t, gen.ConfigOpts{MaxBlock: maxBlock, MaxJobs: 8})
	bs := int(c.Cfg.BlockSize)
	nb := rapid.IntRange(1, 14).Draw(t, "nblocks")
	if rapid.IntRange(0, 9).Draw(t, "many") == 0 {
		nb = rapid.IntRange(14, 70).Draw(t, "nblocks2")
	}
	ln := nb*bs - rapid.IntRange(0, bs-1).Draw(t, "short")
	if c.Cfg.Entropy == "TPAQ" || c.Cfg.Entropy == "TPAQX" || c.Cfg.Entropy == "CM" {
		ln = min(ln, 3*bs)
	}
	c.Data = gen.DrawRecipe(t, 1, "data")
	c.Data.Len = max(1, ln)
	c.Cfg.Hint, c.Cfg.HintClass = 0, "absent"
	if rapid.Bool().Draw(t, "hint") {
		c.Cfg.Hint, c.Cfg.HintClass = int64(c.Data.Len), "exact"
	}
	if rapid.IntRange(0, 2).Draw(t, "damaged") == 0 {
		c.Bad = rapid.IntRange(1, nb).Draw(t, "bad")
		c.BadKind = rapid.SampledFrom([]string{"payload", "prelen"}).Draw(t, "badKind")
		if c.BadKind == "payload" {
			c.Cfg.Checksum = rapid.SampledFrom([]uint{32, 64}).Draw(t, "ck") // only a checksum makes the failure certain
		}
	}
	nv := rapid.IntRange(2, 5).Draw(t, "nvariants")
	for i := 0; i < nv; i++ {
		v := C05Variant{Jobs: gen.DrawJobs(t, 64, "vjobs")}
		if rapid.Bool().Draw(t, "vbufs") {
			v.ReadBufs = rapid.SliceOfN(rapid.OneOf(rapid.IntRange(1, 9), rapid.IntRange(bs-1, bs+1), rapid.IntRange(1, 4*bs)), 1, 6).Draw(t, "vrb")
		}
		if rapid.IntRange(0, 2).Draw(t, "vmode") != 0 {
			v.Perturb = rapid.Uint64Range(1, 1<<20).Draw(t, "vperturb")
			v.Level = rapid.IntRange(1, 2).Draw(t, "vlevel")
		}
		c.Variants = append(c.Variants, v)
	}
	return c
}

func TestC05(t *testing.T) {
	r := start(t, "C05")
	for _, p := range r.ReplayFiles() {
		ff, err := vrt.LoadFail(p)
		if err != nil {
			t.Fatalf("unreadable replay file %s: %v", p, err)
		}
		var c C05Case
		if err := json.Unmarshal(ff.Case, &c); err != nil {
			t.Fatalf("bad case in %s: %v", p, err)
		}
		if o := c05Eval(r, c); o.msg != "" {
			r.RecordFailure("decode-order", c, p, o.msg)
			t.Fatalf("replay %s: %s", p, o.msg)
		}
		r.Label("replayed")
	}
	if r.ReplayOnly() {
		return
	}
	r.Rapid(t, "variants", 2200, 50000, func(t *rapid.T) {
		c := drawC05(t, 8192)
		if o := c05Eval(r, c); o.msg != "" {
			r.Violation(t, "decode-order", c, "%s", o.msg)
		}
	})
	// Parallelism INSIDE a block: the inverse BWT of a block above 4 MiB is spread over helper goroutines when the
	// block task owns several jobs, i.e. when the header carries the original size (block count known) and the
	// reader has more jobs than there are blocks. The 8 chunks are split unevenly for 3, 5, 6 and 7 jobs.
	r.Rapid(t, "jobs-inside-a-block", 16, 240, func(t *rapid.T) {
		var c C05Case
		c.Cfg = gen.Config{Transform: rapid.SampledFrom([]string{"BWT", "BWT", "TEXT+BWT", "BWT+RANK+ZRLT", "LZP+BWT"}).Draw(t, "chain"),
			Entropy: rapid.SampledFrom([]string{"NONE", "NONE", "ANS0", "HUFFMAN"}).Draw(t, "entropy"), BlockSize: 8 << 20, Jobs: uint(rapid.IntRange(1, 4).Draw(t, "wjobs")),
			Checksum: rapid.SampledFrom([]uint{0, 32, 64}).Draw(t, "ck")}
		ln := 4<<20 + rapid.OneOf(rapid.IntRange(1, 64), rapid.IntRange(1, 1<<20)).Draw(t, "len")
		if rapid.IntRange(0, 5).Draw(t, "two") == 0 {
			ln += 8 << 20 // two blocks, both above 4 MiB
		}
		c.Data = gen.Recipe{Kind: rapid.SampledFrom([]int{gen.KText, gen.KXML, gen.KDNA, gen.KRepeat}).Draw(t, "kind"), Len: ln, Seed: rapid.Uint64Range(0, 1000).Draw(t, "seed")}
		c.Cfg.Hint, c.Cfg.HintClass = int64(ln), "exact"
		for _, j := range rapid.Permutation([]uint{2, 3, 4, 5, 6, 7, 8, 16}).Draw(t, "jobs")[:3] {
			c.Variants = append(c.Variants, C05Variant{Jobs: j})
		}
		o := c05Eval(r, c)
		r.Label("jobs-inside-a-block")
		if o.msg != "" {
			r.Violation(t, "decode-order", c, "%s", o.msg)
		}
	})
}
