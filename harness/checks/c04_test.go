//go:build verif

package checks

import (
	"bytes"
	"encoding/json"
	"fmt"
	"testing"

	kio "github.com/flanglet/kanzi-go/v2/io"
	"pgregory.net/rapid"

	"verif/harness/fio"
	"verif/harness/gen"
	"verif/harness/vrt"
)

// C04Variant is one way of producing the same stream.
type C04Variant struct {
	Jobs       uint   `json:"jobs"`
	WriteSizes []int  `json:"write_sizes,omitempty"`
	Perturb    uint64 `json:"perturb,omitempty"` // seed of the yield/sleep driver (0 = hooks idle)
	Level      int    `json:"level,omitempty"`
	Reverse    bool   `json:"reverse,omitempty"` // controlled scheduler: always run the highest enabled block first
}

// C04Case: fixed data and parameters, several variants.
type C04Case struct {
	Cfg      gen.Config   `json:"cfg"` // Jobs is ignored (reference uses 1)
	Data     gen.Recipe   `json:"data"`
	Variants []C04Variant `json:"variants"`
}

type c04Out struct {
	msg        string
	nontrivial bool
	maxLive    int32
	blocks     int
}

func c04Compress(data []byte, cfg gen.Config, v C04Variant) (out []byte, maxLive int32, err error) {
	cfg.Jobs = max(v.Jobs, 1)
	sink := &fio.Sink{}
	run := func() error {
		return guard(func() error {
			w, e := kio.NewWriter(sink, cfg.Transform, cfg.Entropy, cfg.BlockSize, cfg.Jobs, cfg.Checksum, cfg.Hint, cfg.Headerless)
			if e != nil {
				return fmt.Errorf("ctor: %w", e)
			}
			if e := WriteAll(w, data, v.WriteSizes); e != nil {
				return e
			}
			if e := w.Close(); e != nil {
				return fmt.Errorf("close: %w", e)
			}
			return nil
		})
	}
	if v.Reverse {
		// whole batches only (see Sched.Run): the case generator guarantees len(data) == k*jobs*blockSize
		s := &Sched{ch: make(chan *schedEvt)}
		s.choose = func(k int) int { return k - 1 }
		s.MaxSteps = 1 << 30
		var rerr error
		_, _, serr := s.Run(int(cfg.Jobs), func() { rerr = run() })
		if serr != nil {
			return sink.Data, 0, fmt.Errorf("scheduler: %w", serr)
		}
		return sink.Data, int32(cfg.Jobs), rerr
	}
	p := newPerturb(v.Perturb, v.Level)
	withPerturb(p, func() { err = run() })
	return sink.Data, p.MaxLive, err
}

func runC04(r *vrt.Run, c C04Case) (o c04Out) {
	data := c.Data.Expand()
	r.Inflight("purity", c)
	defer r.InflightDone()
	ref, _, err := c04Compress(data, c.Cfg, C04Variant{Jobs: 1})
	if err != nil {
		r.Label("skipped:reference-fails")
		return
	}
	bs := int(c.Cfg.BlockSize)
	o.blocks = (len(data) + bs - 1) / bs
	for i, v := range c.Variants {
		r.Tick()
		got, ml, err := c04Compress(data, c.Cfg, v)
		if ml > o.maxLive {
			o.maxLive = ml
		}
		if err != nil {
			o.msg = fmt.Sprintf("variant %d (%s) failed while the single-job reference succeeded: %v", i, jsonOf(v), err)
			return
		}
		if !bytes.Equal(got, ref) {
			o.msg = fmt.Sprintf("variant %d (%s) produced a different stream than the single-job single-Write reference: lengths %d vs %d, first difference at byte %d", i, jsonOf(v), len(got), len(ref), firstDiff(got, ref))
			return
		}
	}
	o.nontrivial = o.maxLive >= 2 && o.blocks >= 2
	return
}

func c04Eval(r *vrt.Run, c C04Case) c04Out {
	o := runC04(r, c)
	labels := []string{"entropy:" + c.Cfg.Entropy, fmt.Sprintf("maxlive:%d", min(int(o.maxLive), 8)), "len:" + sizeClass(c.Data.Len)}
	for _, n := range chainNames(c.Cfg.Transform) {
		labels = append(labels, "chain-has:"+n)
	}
	for _, v := range c.Variants {
		if v.Reverse {
			labels = append(labels, "variant:reverse-order")
		} else if v.Perturb != 0 {
			labels = append(labels, "variant:perturbed")
		}
		labels = append(labels, "vjobs:"+jobsClass(v.Jobs))
	}
	r.Eval(vrt.HashOf(c), o.nontrivial, labels...)
	if o.nontrivial && r.WantSample() {
		r.Sample(map[string]any{"cfg": c.Cfg.String(), "data": c.Data.String(), "blocks": o.blocks, "max_tasks_alive": o.maxLive, "variants": c.Variants})
	}
	return o
}

func drawC04(t *rapid.T, maxBlock, maxTotal int) C04Case {
	var c C04Case
	c.Cfg = gen.DrawConfig(t, gen.ConfigOpts{MaxBlock: maxBlock, NoHeadless: false})
	c.Cfg.Jobs = 1
	bs := int(c.Cfg.BlockSize)
	nb := rapid.IntRange(1, 12).Draw(t, "nblocks")
	if rapid.IntRange(0, 9).Draw(t, "many") == 0 {
		nb = rapid.IntRange(12, 70).Draw(t, "nblocks2")
	}
	ln := nb*bs - rapid.IntRange(0, bs-1).Draw(t, "short")
	heavy := c.Cfg.Entropy == "TPAQ" || c.Cfg.Entropy == "TPAQX" || c.Cfg.Entropy == "CM"
	if heavy {
		ln = min(ln, 3*bs)
	}
	ln = min(ln, maxTotal)
	c.Data = gen.DrawRecipe(t, 1, "data")
	c.Data.Len = max(1, ln)
	// one case in three: data the chain's first transform applies to, often of two natures (mixed), so that the
	// blocks of a batch differ in what the detectors decide
	if names := chainNames(c.Cfg.Transform); len(names) > 0 {
		if aff, ok := c13Affinity[names[0]]; ok && rapid.IntRange(0, 2).Draw(t, "affine") == 0 {
			c.Data.Kind = rapid.SampledFrom(aff).Draw(t, "affkind")
			gen.FixEdge(t, &c.Data, "data")
		}
	}
	c.Cfg.Hint, c.Cfg.HintClass = gen.DrawHint(t, c.Data.Len, c.Cfg.BlockSize, "hint")
	nv := rapid.IntRange(3, 6).Draw(t, "nvariants")
	for i := 0; i < nv; i++ {
		v := C04Variant{Jobs: gen.DrawJobs(t, 64, "vjobs")}
		if rapid.Bool().Draw(t, "vsplit") {
			v.WriteSizes = rapid.SliceOfN(rapid.OneOf(rapid.IntRange(0, 17), rapid.IntRange(bs-1, bs+1), rapid.IntRange(0, 3*bs), rapid.IntRange(0, (int(v.Jobs)+1)*bs)), 1, 10).Draw(t, "vws")
		}
		switch rapid.IntRange(0, 3).Draw(t, "vmode") {
		case 1, 2:
			v.Perturb = rapid.Uint64Range(1, 1<<20).Draw(t, "vperturb")
			v.Level = rapid.IntRange(1, 2).Draw(t, "vlevel")
		}
		c.Variants = append(c.Variants, v)
	}
	// repeated identical run
	c.Variants = append(c.Variants, c.Variants[0])
	return c
}

func TestC04(t *testing.T) {
	r := start(t, "C04")
	for _, p := range r.ReplayFiles() {
		ff, err := vrt.LoadFail(p)
		if err != nil {
			t.Fatalf("unreadable replay file %s: %v", p, err)
		}
		var c C04Case
		if err := json.Unmarshal(ff.Case, &c); err != nil {
			t.Fatalf("bad case in %s: %v", p, err)
		}
		if o := c04Eval(r, c); o.msg != "" {
			r.RecordFailure("purity", c, p, o.msg)
			t.Fatalf("replay %s: %s", p, o.msg)
		}
		r.Label("replayed")
	}
	if r.ReplayOnly() {
		return
	}
	r.Rapid(t, "variants", 1500, 40000, func(t *rapid.T) {
		c := drawC04(t, 16384, 512*1024)
		if o := c04Eval(r, c); o.msg != "" {
			r.Violation(t, "purity", c, "%s", o.msg)
		}
	})
	// Directed family: a short last block. With one job the block tasks reuse buffers that were sized for the full
	// blocks before it; with more jobs than blocks every block gets fresh buffers sized for its own length. A
	// transform whose decision ("the output does not fit: decline") looks at the buffer it was handed rather than at
	// the block then codes the same block differently. Data at the margin of each transform (hardly compressible),
	// every transform alone, block 1024, last block 1024-d bytes.
	{
		idx := 0
		ds := []int{1, 2, 3, 5, 8, 13, 21, 40}
		if r.Thorough() {
			ds = nil
			for d := 1; d <= 64; d++ {
				ds = append(ds, d)
			}
		}
		for _, tr := range gen.TransformNames[1:] {
			for _, kind := range []int{gen.KRandom, gen.KWav, gen.KSkewed, gen.KText} {
				for _, d := range ds {
					idx++
					if !r.Mine(idx) || r.Failed() {
						continue
					}
					c := C04Case{Cfg: gen.Config{Transform: tr, Entropy: []string{"NONE", "FPAQ"}[idx%2], BlockSize: 1024, Jobs: 1, Checksum: 0, HintClass: "absent"},
						Data: gen.Recipe{Kind: kind, Len: 5*1024 + 1024 - d, Seed: uint64(idx), P1: 2, P2: 2}, Variants: []C04Variant{{Jobs: 8}, {Jobs: 3}}}
					r.Label("directed:short-last-block")
					if o := c04Eval(r, c); o.msg != "" {
						if r.Survey() {
							r.Violation(t, "purity", c, "%s", o.msg)
							continue
						}
						r.RecordFailure("purity", c, "", o.msg)
						t.Fatalf("short-last-block family: %s on %s", o.msg, jsonOf(c))
					}
				}
			}
		}
		r.SetExhaustive("short last block x every transform x 4 marginal data kinds x jobs {1,3,8}", true)
	}
	// Fixed cases: a slow block followed by an almost empty one - the successor's task is done at once and has to wait
	// seconds for its turn (a wait that gives up after a while would let it write first)
	for i, en := range []string{"TPAQX", "CM"} {
		if !r.Mine(1000+i) || r.Failed() {
			continue
		}
		c := C04Case{Cfg: gen.Config{Transform: "NONE", Entropy: en, BlockSize: 2 << 20, Jobs: 1, Checksum: 32, HintClass: "absent"},
			Data: gen.Recipe{Kind: gen.KText, Len: 2<<20 + 100, Seed: uint64(50 + i)}, Variants: []C04Variant{{Jobs: 2}, {Jobs: 5}}}
		r.Label("fixed:slow-predecessor")
		if o := c04Eval(r, c); o.msg != "" {
			if r.Survey() {
				r.Violation(t, "purity", c, "%s", o.msg)
				continue
			}
			r.RecordFailure("purity", c, "", o.msg)
			t.Fatalf("slow predecessor: %s on %s", o.msg, jsonOf(c))
		}
	}
	// forced reverse completion order (controlled scheduler), whole batches only
	r.Rapid(t, "reverse-order", 150, 4000, func(t *rapid.T) {
		var c C04Case
		c.Cfg = gen.DrawConfig(t, gen.ConfigOpts{MaxBlock: 4096, MaxChain: 3, NoHeadless: true})
		jobs := uint(rapid.IntRange(2, 6).Draw(t, "jobs"))
		batches := rapid.IntRange(1, 3).Draw(t, "batches")
		if c.Cfg.Entropy == "TPAQ" || c.Cfg.Entropy == "TPAQX" || c.Cfg.Entropy == "CM" {
			batches = 1
		}
		c.Data = gen.DrawRecipe(t, 1, "data")
		c.Data.Len = int(jobs) * batches * int(c.Cfg.BlockSize)
		c.Cfg.Hint, c.Cfg.HintClass = 0, "absent"
		c.Variants = []C04Variant{{Jobs: jobs, Reverse: true}}
		if o := c04Eval(r, c); o.msg != "" {
			r.Violation(t, "purity", c, "%s", o.msg)
		}
	})
	if r.Thorough() {
		// BWT is the one transform that reads the job count: blocks below and above 4 MiB
		r.Rapid(t, "bwt-large", 0, 24, func(t *rapid.T) {
			c := C04Case{Cfg: gen.Config{Transform: "BWT", Entropy: rapid.SampledFrom([]string{"NONE", "HUFFMAN"}).Draw(t, "en"), BlockSize: 8 << 20, Jobs: 1, Checksum: 32, HintClass: "absent"}}
			c.Data = gen.DrawRecipe(t, 1, "data")
			c.Data.Len = rapid.SampledFrom([]int{3 << 20, 4<<20 + 5, 9 << 20}).Draw(t, "len")
			c.Variants = []C04Variant{{Jobs: 2}, {Jobs: 5, Perturb: 3, Level: 1}, {Jobs: 16}}
			if o := c04Eval(r, c); o.msg != "" {
				r.Violation(t, "purity", c, "%s", o.msg)
			}
		})
	}
}
