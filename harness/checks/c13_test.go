package checks

import (
	"bytes"
	"encoding/json"
	"fmt"
	"reflect"
	"strings"
	"sync"
	"testing"

	kanzi "github.com/flanglet/kanzi-go/v2"
	"github.com/flanglet/kanzi-go/v2/transform"
	"pgregory.net/rapid"

	"verif/harness/gen"
	"verif/harness/vrt"
)

// C13Case exercises one transform on one block.
type C13Case struct {
	Transform string     `json:"transform"`
	Direct    bool       `json:"direct"`    // per-codec constructor (true) or transform.New sequence of one (false)
	Entropy   string     `json:"entropy"`   // selects TEXT codec 1/2 and RLT behaviour
	DataType  int        `json:"data_type"` // -1 absent, else internal.DataType value 0..9
	Jobs      uint       `json:"jobs"`      // BWT
	Data      gen.Recipe `json:"data"`
}

var dtNames = []string{"UNDEFINED", "TEXT", "MULTIMEDIA", "EXE", "NUMERIC", "BASE64", "DNA", "BIN", "UTF8", "SMALL_ALPHABET"}

var (
	dtOnce sync.Once
	dtType reflect.Type
)

// dataTypeValue builds an internal.DataType value by reflection: the type is
// taken from a value the library itself stores in a context map.
func dataTypeValue(k int) any {
	dtOnce.Do(func() {
		probes := []struct {
			name string
			kind int
		}{{"TEXT", gen.KText}, {"UTF", gen.KUTF8}, {"MM", gen.KWav}, {"ROLZX", gen.KRandom}, {"RLT", gen.KRuns}, {"PACK", gen.KSmallAlpha}}
		for _, p := range probes {
			ctx := map[string]any{"transform": p.name, "entropy": "NONE", "bsVersion": uint(6), "blockSize": uint(16384), "size": uint(16384), "jobs": uint(1)}
			guard(func() error {
				c, err := newDirect(p.name, &ctx)
				if err != nil {
					return err
				}
				src := gen.Recipe{Kind: p.kind, Len: 16384, Seed: 7, P1: 300}.Expand()
				dst := make([]byte, c.MaxEncodedLen(len(src)))
				c.Forward(src, dst)
				return nil
			})
			if v, ok := ctx["dataType"]; ok {
				dtType = reflect.TypeOf(v)
				return
			}
		}
	})
	if dtType == nil {
		return nil
	}
	v := reflect.New(dtType).Elem()
	v.SetInt(int64(k))
	return v.Interface()
}

func c13Ctx(c C13Case, n int) map[string]any {
	bs := (max(n, 1024) + 15) &^ 15
	ctx := map[string]any{"transform": c.Transform, "entropy": c.Entropy, "blockSize": uint(bs), "size": uint(n),
		"bsVersion": uint(6), "jobs": max(c.Jobs, 1)}
	return ctx
}

// newDirect mirrors what transform.New puts in the context for each name.
func newDirect(name string, ctx *map[string]any) (kanzi.ByteTransform, error) {
	switch name {
	case "TEXT":
		tc := 1
		switch strings.ToUpper((*ctx)["entropy"].(string)) {
		case "NONE", "ANS0", "HUFFMAN", "RANGE":
			tc = 2
		}
		(*ctx)["textcodec"] = tc
		return transform.NewTextCodecWithCtx(ctx)
	case "ROLZ", "ROLZX":
		return transform.NewROLZCodecWithCtx(ctx)
	case "BWT":
		return transform.NewBWTBlockCodecWithCtx(ctx)
	case "BWTS":
		return transform.NewBWTSWithCtx(ctx)
	case "LZ":
		(*ctx)["lz"] = transform.LZ_TYPE
		return transform.NewLZCodecWithCtx(ctx)
	case "LZX":
		(*ctx)["lz"] = transform.LZX_TYPE
		return transform.NewLZCodecWithCtx(ctx)
	case "LZP":
		(*ctx)["lz"] = transform.LZP_TYPE
		return transform.NewLZCodecWithCtx(ctx)
	case "UTF":
		return transform.NewUTFCodecWithCtx(ctx)
	case "MM":
		return transform.NewFSDCodecWithCtx(ctx)
	case "PACK":
		return transform.NewAliasCodecWithCtx(ctx)
	case "DNA":
		(*ctx)["packOnlyDNA"] = true
		return transform.NewAliasCodecWithCtx(ctx)
	case "SRT":
		return transform.NewSRTWithCtx(ctx)
	case "RANK":
		(*ctx)["sbrt"] = transform.SBRT_MODE_RANK
		return transform.NewSBRTWithCtx(ctx)
	case "MTFT":
		(*ctx)["sbrt"] = transform.SBRT_MODE_MTF
		return transform.NewSBRTWithCtx(ctx)
	case "ZRLT":
		return transform.NewZRLTWithCtx(ctx)
	case "RLT":
		return transform.NewRLTWithCtx(ctx)
	case "EXE":
		return transform.NewEXECodecWithCtx(ctx)
	case "NONE":
		return transform.NewNullTransformWithCtx(ctx)
	}
	return nil, fmt.Errorf("unknown transform %q", name)
}

type c13Out struct {
	applied bool
	msg     string
	written int
}

const guardLen = 256

func guardOK(b []byte) bool {
	for _, v := range b {
		if v != 0xA5 {
			return false
		}
	}
	return true
}

func runC13(r *vrt.Run, c C13Case) (o c13Out) {
	data := c.Data.Expand()
	n := len(data)
	if n == 0 {
		return
	}
	ctxF := c13Ctx(c, n)
	if c.DataType >= 0 {
		if v := dataTypeValue(c.DataType); v != nil {
			ctxF["dataType"] = v
		}
	}
	ty, err := transform.GetType(c.Transform)
	if err != nil {
		o.msg = "GetType: " + err.Error()
		return
	}
	var fwd, inv kanzi.ByteTransform
	var seqF, seqI *transform.ByteTransformSequence
	err = guard(func() error {
		var e error
		if c.Direct {
			fwd, e = newDirect(c.Transform, &ctxF)
		} else {
			seqF, e = transform.New(&ctxF, ty)
			fwd = seqF
		}
		return e
	})
	if err != nil {
		o.msg = "constructing the transform failed: " + err.Error()
		return
	}
	// caller-owned buffers with canaries
	srcBack := bytes.Repeat([]byte{0xA5}, n+guardLen)
	copy(srcBack, data)
	src := srcBack[:n]
	maxLen := fwd.MaxEncodedLen(n)
	if maxLen < 0 || maxLen > n+n/2+(1<<20) {
		o.msg = fmt.Sprintf("MaxEncodedLen(%d) = %d is not a sane bound", n, maxLen)
		return
	}
	dstBack := bytes.Repeat([]byte{0xA5}, max(maxLen, 1)+guardLen)
	dst := dstBack[:max(maxLen, 1)]
	var written uint
	var ferr error
	perr := guard(func() error {
		_, written, ferr = fwd.Forward(src, dst)
		return nil
	})
	if perr != nil {
		o.msg = "forward faulted: " + perr.Error()
		return
	}
	if !guardOK(srcBack[n:]) {
		o.msg = "forward wrote past the end of the input block (guard region after src damaged)"
		return
	}
	if !guardOK(dstBack[len(dst):]) {
		o.msg = "forward wrote past the end of the output buffer (guard region after dst damaged)"
		return
	}
	declined := ferr != nil
	var flags byte
	if !c.Direct {
		flags = seqF.SkipFlags()
		declined = flags&0x80 != 0
	}
	if !bytes.Equal(src, data) {
		if declined {
			o.msg = fmt.Sprintf("forward declined (%v) but modified the input block at offset %d", ferr, firstDiff(src, data))
		} else {
			o.msg = fmt.Sprintf("forward modified its input block at offset %d", firstDiff(src, data))
		}
		return
	}
	if declined {
		return
	}
	o.applied = true
	o.written = int(written)
	if int(written) > maxLen {
		o.msg = fmt.Sprintf("forward reported %d bytes written, advertised bound MaxEncodedLen(%d) = %d", written, n, maxLen)
		return
	}
	// inverse: fresh instance, context as the decompressor has it
	ctxI := c13Ctx(c, int(written))
	bs := int(ctxI["blockSize"].(uint))
	ctxI["blockSize"] = uint((max(n, 1024) + 15) &^ 15)
	bs = int(ctxI["blockSize"].(uint))
	err = guard(func() error {
		var e error
		if c.Direct {
			inv, e = newDirect(c.Transform, &ctxI)
		} else {
			seqI, e = transform.New(&ctxI, ty)
			if e == nil {
				seqI.SetSkipFlags(flags)
			}
			inv = seqI
		}
		return e
	})
	if err != nil {
		o.msg = "constructing the inverse transform failed: " + err.Error()
		return
	}
	outLen := bs + max(512, bs>>4)
	outBack := bytes.Repeat([]byte{0xA5}, outLen+guardLen)
	out := outBack[:outLen]
	encBack := make([]byte, int(written)+512)
	copy(encBack, dst[:written])
	var m uint
	var ierr error
	perr = guard(func() error {
		_, m, ierr = inv.Inverse(encBack[:written], out)
		return nil
	})
	if perr != nil {
		o.msg = "inverse faulted on the forward output: " + perr.Error()
		return
	}
	if ierr != nil {
		o.msg = fmt.Sprintf("inverse failed on the forward output (%d -> %d bytes, decoder buffer %d): %v", n, written, outLen, ierr)
		return
	}
	if !guardOK(outBack[outLen:]) {
		o.msg = "inverse wrote past the end of the output buffer"
		return
	}
	if int(m) != n || !bytes.Equal(out[:min(int(m), outLen)], data) {
		o.msg = fmt.Sprintf("inverse(forward(block)) differs: got %d bytes, want %d, first difference at %d", m, n, firstDiff(out[:min(int(m), outLen)], data))
		return
	}
	return
}

func c13Eval(r *vrt.Run, c C13Case) c13Out {
	o := runC13(r, c)
	dt := "absent"
	if c.DataType >= 0 && c.DataType < len(dtNames) {
		dt = dtNames[c.DataType]
	}
	mode := "seq"
	if c.Direct {
		mode = "direct"
	}
	outc := "declined"
	if o.applied {
		outc = "applied"
	}
	r.Eval(vrt.HashOf(c), o.applied, "t:"+c.Transform+":"+outc, "dt:"+dt, "mode:"+mode,
		"kind:"+gen.KindNames[c.Data.Kind%gen.NKinds], "len:"+sizeClass(c.Data.Len), "t+dt:"+c.Transform+"+"+dt)
	if o.applied && r.WantSample() {
		r.Sample(map[string]any{"transform": c.Transform, "mode": mode, "entropy": c.Entropy, "data_type_hint": dt, "jobs": c.Jobs,
			"data": c.Data.String(), "forward_bytes": o.written})
	}
	return o
}

// kinds that satisfy each transform's detector, used to keep "applied" rates up
var c13Affinity = map[string][]int{
	"TEXT": {gen.KText, gen.KXML, gen.KRecords, gen.KLatin1, gen.KLatin1}, "UTF": {gen.KUTF8}, "EXE": {gen.KExeX86, gen.KExeARM, gen.KExeELF, gen.KExeELF}, "MM": {gen.KWav, gen.KBmp},
	"DNA": {gen.KDNA}, "PACK": {gen.KSmallAlpha, gen.KDNA, gen.KNumeric}, "RLT": {gen.KRuns, gen.KZeros}, "ZRLT": {gen.KRuns, gen.KZeros, gen.KSkewed},
	"LZP": {gen.KRepeat, gen.KText, gen.KStretch}, "ROLZ": {gen.KText, gen.KRepeat, gen.KStretch}, "ROLZX": {gen.KText, gen.KDNA, gen.KExeX86, gen.KStretch},
}

func drawC13(t *rapid.T, maxLen int) C13Case {
	var c C13Case
	c.Transform = rapid.SampledFrom(gen.TransformNames[1:]).Draw(t, "transform")
	c.Direct = rapid.Bool().Draw(t, "direct")
	c.Entropy = rapid.SampledFrom([]string{"NONE", "HUFFMAN", "ANS0", "RANGE", "ANS1", "FPAQ", "CM", "TPAQ", "TPAQX"}).Draw(t, "entropy")
	c.Jobs = uint(rapid.OneOf(rapid.IntRange(1, 8), rapid.IntRange(1, 32)).Draw(t, "jobs"))
	ml := maxLen
	switch c.Transform {
	case "BWT", "BWTS":
		ml = min(maxLen, 1<<20) // suffix sorting is slow; the large regime has its own phase
	}
	c.Data = gen.DrawRecipe(t, ml, "data")
	if c.Data.Len == 0 {
		c.Data.Len = 1
	}
	if aff, ok := c13Affinity[c.Transform]; ok && rapid.IntRange(0, 2).Draw(t, "affine") != 0 {
		c.Data.Kind = rapid.SampledFrom(aff).Draw(t, "affkind")
		gen.FixEdge(t, &c.Data, "data")
		if c.Data.Len < 1100 && rapid.Bool().Draw(t, "bigger") {
			c.Data.Len += 4096
		}
	}
	switch rapid.IntRange(0, 3).Draw(t, "dtcls") {
	case 0, 1:
		c.DataType = -1
		if rapid.Bool().Draw(t, "dtundef") {
			c.DataType = 0
		}
	case 2:
		c.DataType = kindDataType(c.Data.Kind)
	default:
		c.DataType = rapid.IntRange(0, 9).Draw(t, "dt")
	}
	return c
}

// kindDataType is the hint an earlier stage would plausibly have left for this kind of data.
func kindDataType(kind int) int {
	switch kind {
	case gen.KText, gen.KXML, gen.KRecords, gen.KLatin1:
		return 1
	case gen.KWav, gen.KBmp:
		return 2
	case gen.KExeX86, gen.KExeARM, gen.KExeELF:
		return 3
	case gen.KNumeric:
		return 4
	case gen.KBase64:
		return 5
	case gen.KDNA:
		return 6
	case gen.KMagic, gen.KRandom:
		return 7
	case gen.KUTF8:
		return 8
	case gen.KSmallAlpha:
		return 9
	}
	return 0
}

func TestC13(t *testing.T) {
	r := start(t, "C13")
	for _, p := range r.ReplayFiles() {
		ff, err := vrt.LoadFail(p)
		if err != nil {
			t.Fatalf("unreadable replay file %s: %v", p, err)
		}
		var c C13Case
		if err := json.Unmarshal(ff.Case, &c); err != nil {
			t.Fatalf("bad case in %s: %v", p, err)
		}
		if o := c13Eval(r, c); o.msg != "" {
			r.RecordFailure("transform", c, p, o.msg)
			t.Fatalf("replay %s: %s", p, o.msg)
		}
		r.Label("replayed")
	}
	if r.ReplayOnly() {
		return
	}
	if dataTypeValue(0) == nil {
		r.Note("internal.DataType could not be obtained by reflection: data-type hints are not exercised in this run")
	}
	prop := func(maxLen int) func(*rapid.T) {
		return func(t *rapid.T) {
			c := drawC13(t, maxLen)
			if o := c13Eval(r, c); o.msg != "" {
				r.Violation(t, "transform", c, "%s", o.msg)
			}
		}
	}
	r.Rapid(t, "small", 40000, 1200000, prop(70000))
	r.Rapid(t, "medium", 1500, 40000, prop(1<<20))
	// Directed family: block lengths around the internal chunk size of the ROLZ codecs (16 MiB: the encoder cuts
	// chunks over len-4 bytes, the decoder over len bytes) and, thorough, twice that size. Compressible data so that
	// the forward direction is applied.
	{
		type dcase struct {
			tr    string
			base  int
			delta []int
		}
		fam := []dcase{{"ROLZX", 16 << 20, []int{1, 3, 5, 6, 7, 9, 12}}, {"ROLZ", 16 << 20, []int{1, 5, 12}}, {"BWT", 8 << 20, []int{4097}}, {"BWT", 4 << 20, []int{5, 4101, 77}}}
		if r.Thorough() {
			all := []int{-1, 0, 1, 2, 3, 4, 5, 6, 7, 8, 9, 10, 11, 12, 13, 4097}
			fam = []dcase{{"ROLZX", 16 << 20, all}, {"ROLZ", 16 << 20, all}, {"ROLZX", 32 << 20, []int{0, 2, 6, 12}}, {"ROLZ", 32 << 20, []int{2, 6}}}
		}
		idx := 0
		for _, f := range fam {
			for _, d := range f.delta {
				idx++
				if !r.Mine(idx) || r.Failed() {
					continue
				}
				c := C13Case{Transform: f.tr, Direct: idx%2 == 0, Entropy: "NONE", DataType: -1, Jobs: []uint{1, 1, 4, 12, 3, 32}[idx%6],
					Data: gen.Recipe{Kind: []int{gen.KText, gen.KDNA, gen.KExeX86, gen.KRuns, gen.KXML}[idx%5], Len: f.base + d, Seed: uint64(idx), P1: 1}}
				o := c13Eval(r, c)
				r.Label("directed:rolz-chunk-boundary")
				if o.msg != "" {
					if r.Survey() {
						r.Violation(t, "transform", c, "%s", o.msg)
						continue
					}
					r.RecordFailure("transform", c, "", o.msg)
					t.Fatalf("chunk-boundary family: %s on %s", o.msg, jsonOf(c))
				}
			}
		}
		// a literal run longer than the 2^24 that the LZ length fields hold, at the END of the block (after the last
		// match) and in its middle: compressible head (and tail), more than 16 MiB of random bytes
		for _, tr := range []string{"ROLZ", "ROLZX", "LZ", "LZX", "LZP"} {
			for _, p1 := range []int{0, 2, 3} {
				idx++
				if !r.Mine(idx) || r.Failed() || (p1 == 3 && !r.Thorough()) {
					continue
				}
				n := []int{1 << 20, 0, 3 << 20, 5 << 20}[p1]
				c := C13Case{Transform: tr, Direct: idx%2 == 0, Entropy: "NONE", DataType: -1, Jobs: 1, Data: gen.Recipe{Kind: gen.KStretch, Len: n, Seed: uint64(idx), P1: p1, P2: idx}}
				o := c13Eval(r, c)
				r.Label("directed:incompressible-stretch")
				if o.msg != "" {
					if r.Survey() {
						r.Violation(t, "transform", c, "%s", o.msg)
						continue
					}
					r.RecordFailure("transform", c, "", o.msg)
					t.Fatalf("incompressible stretch family: %s on %s", o.msg, jsonOf(c))
				}
			}
		}
		// TEXT with a vocabulary far beyond the dictionary (2^19 entries: the dynamic part wraps around), both codec
		// variants (selected by the entropy name)
		for i, en := range []string{"NONE", "FPAQ", "FPAQ", "HUFFMAN", "CM"} {
			idx++
			if !r.Mine(idx) || r.Failed() {
				continue
			}
			rc := gen.Recipe{Kind: gen.KLatin1, Len: r.Pick(10, 24) << 20, Seed: uint64(idx), P1: 0, P2: 100}
			if i >= 2 {
				// vocabularies of 20000..62000 words used again and again, 1.5 MiB
				rc.Len, rc.P2 = 3<<19, []int{150, 255, 175}[i-2]
			}
			c := C13Case{Transform: "TEXT", Direct: idx%2 == 0, Entropy: en, DataType: -1, Jobs: 1, Data: rc}
			o := c13Eval(r, c)
			r.Label("directed:huge-vocabulary")
			if o.msg != "" {
				if r.Survey() {
					r.Violation(t, "transform", c, "%s", o.msg)
					continue
				}
				r.RecordFailure("transform", c, "", o.msg)
				t.Fatalf("huge vocabulary family: %s on %s", o.msg, jsonOf(c))
			}
		}
		for i, tr := range []string{"LZ", "LZX", "LZP"} {
			for k, rc := range []gen.Recipe{
				{Kind: gen.KMixed, Len: 18000000, Seed: 3, P1: 58, P2: gen.KZeros, Kind2: gen.KRandom},
				{Kind: gen.KMixed, Len: 18000000, Seed: 4, P1: 940, P2: gen.KRandom, Kind2: gen.KZeros}} {
				idx++
				if !r.Mine(idx) || r.Failed() || (k == 1 && !r.Thorough() && i > 0) {
					continue
				}
				c := C13Case{Transform: tr, Direct: idx%2 == 0, Entropy: "NONE", DataType: -1, Jobs: 1, Data: rc}
				o := c13Eval(r, c)
				r.Label("directed:literal-run-above-2^24")
				if o.msg != "" {
					if r.Survey() {
						r.Violation(t, "transform", c, "%s", o.msg)
						continue
					}
					r.RecordFailure("transform", c, "", o.msg)
					t.Fatalf("long literal run family: %s on %s", o.msg, jsonOf(c))
				}
			}
		}
		r.SetExhaustive("ROLZ/ROLZX block lengths around the 16 MiB internal chunk", true)
	}
	if r.Thorough() {
		r.Rapid(t, "large", 0, 400, prop(9<<20))
		// BWT/BWTS above the 4 MiB threshold with several jobs
		r.Rapid(t, "bwt-large", 0, 48, func(t *rapid.T) {
			c := C13Case{Transform: rapid.SampledFrom([]string{"BWT", "BWTS"}).Draw(t, "transform"), Direct: rapid.Bool().Draw(t, "direct"),
				Entropy: "NONE", DataType: -1, Jobs: uint(rapid.IntRange(1, 8).Draw(t, "jobs"))}
			c.Data = gen.DrawRecipe(t, 1, "data")
			c.Data.Len = rapid.IntRange(4<<20-2, 5<<20).Draw(t, "len")
			if o := c13Eval(r, c); o.msg != "" {
				r.Violation(t, "transform", c, "%s", o.msg)
			}
		})
	}
}
