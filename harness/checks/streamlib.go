package checks

import (
	"bytes"
	"fmt"
	"io"
	"sync"

	kanzi "github.com/flanglet/kanzi-go/v2"
	"github.com/flanglet/kanzi-go/v2/bitstream"
	kio "github.com/flanglet/kanzi-go/v2/io"

	"verif/harness/fio"
	"verif/harness/gen"
	"verif/harness/kfmt"
)

// ReadCall is the result of one Reader.Read call.
type ReadCall struct {
	Buf int    `json:"buf"`
	N   int    `json:"n"`
	Err string `json:"err,omitempty"`
}

// ReadTrace is what a caller observes when it keeps calling Read.
type ReadTrace struct {
	Calls        []ReadCall
	Acc          []byte // every byte ever returned, in order
	FirstErr     error  // first non-EOF error
	FirstErrCall int    // index of the call that returned it (-1 if none)
	AccAtErr     int    // len(Acc) after the call that returned the first error
	SawEOF       bool
	Panic        string
}

// ReadOn drives rd: it stops at io.EOF, or extraAfterErr calls after the first
// non-EOF error, or after maxCalls calls that delivered nothing (calls that return
// data never count against the cap: one-byte reads of a long stream are legitimate).
func ReadOn(rd io.Reader, bufSizes []int, extraAfterErr, maxCalls int) (tr ReadTrace) {
	tr.FirstErrCall = -1
	if len(bufSizes) == 0 {
		bufSizes = []int{65536}
	}
	after := 0
	zero := 0
	idle := 0
	for i := 0; idle < maxCalls; i++ {
		k := bufSizes[min(i, len(bufSizes)-1)]
		if k < 0 {
			k = 0
		}
		if i >= len(bufSizes) && k == 0 {
			k = 4096
		}
		buf := make([]byte, k)
		var n int
		var e error
		if pe := guard(func() error { n, e = rd.Read(buf); return nil }); pe != nil {
			tr.Panic = pe.Error()
			return
		}
		c := ReadCall{Buf: k, N: n}
		if e != nil {
			c.Err = e.Error()
		}
		if len(tr.Calls) < 64 {
			tr.Calls = append(tr.Calls, c)
		}
		if n < 0 || n > k {
			tr.Panic = fmt.Sprintf("Read returned n=%d for a buffer of %d bytes", n, k)
			return
		}
		tr.Acc = append(tr.Acc, buf[:n]...)
		if n == 0 {
			idle++
		}
		if e == io.EOF {
			tr.SawEOF = true
			return
		}
		if e != nil {
			if tr.FirstErr == nil {
				tr.FirstErr = e
				tr.FirstErrCall = i
				tr.AccAtErr = len(tr.Acc)
			}
			after++
			if after > extraAfterErr {
				return
			}
			continue
		}
		if tr.FirstErr != nil {
			after++
			if after > extraAfterErr {
				return
			}
		}
		if n == 0 && k > 0 {
			zero++
			if zero > 2000 {
				tr.Panic = "Read keeps returning (0, nil) for a non-empty buffer"
				return
			}
		}
	}
	return
}

// evRec is a Listener recording (type, block id) pairs.
type evRec struct {
	mu  sync.Mutex
	evs map[[2]int]int
}

func newEvRec() *evRec { return &evRec{evs: map[[2]int]int{}} }

func (l *evRec) ProcessEvent(evt *kanzi.Event) {
	l.mu.Lock()
	l.evs[[2]int{evt.Type(), evt.ID()}]++
	l.mu.Unlock()
}

func (l *evRec) saw(typ, id int) bool {
	l.mu.Lock()
	defer l.mu.Unlock()
	return l.evs[[2]int{typ, id}] > 0
}

func (l *evRec) blocksWith(typ int) []int {
	l.mu.Lock()
	defer l.mu.Unlock()
	var out []int
	for k := range l.evs {
		if k[0] == typ {
			out = append(out, k[1])
		}
	}
	return out
}

// parseStream runs the independent container parser for a stream written with cfg.
func parseStream(stream []byte, cfg gen.Config) (*kfmt.Stream, error) {
	if cfg.Headerless {
		return kfmt.ParseHeaderless(stream, int(cfg.Checksum))
	}
	return kfmt.Parse(stream)
}

// markedData expands the recipe and makes blocks pairwise distinguishable.
func markedData(rc gen.Recipe, blockSize uint) []byte {
	d := rc.Expand()
	gen.MarkBlocks(d, int(blockSize))
	return d
}

// isPrefix tells whether a is a prefix of b.
func isPrefix(a, b []byte) bool { return len(a) <= len(b) && bytes.Equal(a, b[:len(a)]) }

// openReader builds a Reader for cfg over src with optional extra context entries and a listener.
func openReader(src io.ReadCloser, cfg gen.Config, jobs uint, extra map[string]any, l kanzi.Listener) (*kio.Reader, error) {
	ctx := map[string]any{"jobs": jobs}
	if cfg.Headerless {
		ctx["transform"] = cfg.Transform
		ctx["entropy"] = cfg.Entropy
		ctx["blockSize"] = cfg.BlockSize
		ctx["checksum"] = cfg.Checksum
		ctx["outputSize"] = cfg.Hint
		ctx["bsVersion"] = uint(6)
		ctx["headerless"] = true
	}
	for k, v := range extra {
		ctx[k] = v
	}
	if nb, ok := extra["verif.nobsversion"]; ok && nb.(bool) {
		// headerless reader described by a context WITHOUT the optional bsVersion entry (the reader's default applies)
		delete(ctx, "verif.nobsversion")
		delete(ctx, "bsVersion")
	}
	var rd *kio.Reader
	var err error
	if sb, ok := extra["verif.smallbuf"]; ok && sb.(bool) {
		// same reader over an input bitstream with a 4 KiB buffer instead of the 256 KiB default:
		// saves a 256 KiB allocation per case in the exhaustive sweeps
		delete(ctx, "verif.smallbuf")
		ibs, e := bitstream.NewDefaultInputBitStream(src, 4096)
		if e != nil {
			return nil, e
		}
		rd, err = kio.NewReaderWithCtx2(ibs, ctx)
	} else {
		rd, err = kio.NewReaderWithCtx(src, ctx)
	}
	if err != nil {
		return nil, err
	}
	if l != nil {
		rd.AddListener(l)
	}
	return rd, nil
}

// CompressWith is Compress through NewWriterWithCtx: extra context entries
// (e.g. "verbosity") and an optional listener, as the command-line tool uses the Writer.
func CompressWith(data []byte, cfg gen.Config, writeSizes []int, extra map[string]any, l kanzi.Listener) (stream []byte, err error) {
	sink := &fio.Sink{}
	err = guard(func() error {
		ctx := map[string]any{"transform": cfg.Transform, "entropy": cfg.Entropy, "blockSize": cfg.BlockSize, "jobs": cfg.Jobs,
			"checksum": cfg.Checksum, "headerless": cfg.Headerless}
		if cfg.Hint > 0 {
			ctx["fileSize"] = cfg.Hint
		}
		for k, v := range extra {
			ctx[k] = v
		}
		w, e := kio.NewWriterWithCtx(sink, ctx)
		if e != nil {
			return fmt.Errorf("ctor: %w", e)
		}
		if l != nil {
			w.AddListener(l)
		}
		if e := WriteAll(w, data, writeSizes); e != nil {
			return e
		}
		if e := w.Close(); e != nil {
			return fmt.Errorf("close: %w", e)
		}
		return nil
	})
	return sink.Data, err
}

// DecompressWith is Decompress through NewReaderWithCtx with extra context entries and an optional listener.
func DecompressWith(stream []byte, cfg gen.Config, jobs uint, bufSizes []int, extra map[string]any, l kanzi.Listener) ([]byte, error) {
	var out []byte
	err := guard(func() error {
		r, e := openReader(fio.NewSource(stream), cfg, jobs, extra, l)
		if e != nil {
			return fmt.Errorf("reader ctor: %w", e)
		}
		defer r.Close()
		var e2 error
		out, e2 = Drain(r, bufSizes)
		return e2
	})
	return out, err
}
