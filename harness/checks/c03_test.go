package checks

import (
	"encoding/json"
	"fmt"
	"os"
	"os/exec"
	"path/filepath"
	"runtime"
	"strings"
	"testing"
	"time"

	"pgregory.net/rapid"

	"verif/harness/gen"
	"verif/harness/kfmt"
	"verif/harness/vrt"
)

func TestMain(m *testing.M) {
	if os.Getenv("VERIF_WORKER") == "1" {
		workerMain()
		os.Exit(0)
	}
	os.Exit(m.Run())
}

// ForgeOp is one structure-aware mutation of a valid stream.
type ForgeOp struct {
	Kind string `json:"kind"` // hdr, blklen, prelen, mode, skip, bytes, bits, trunc, append, setbytes, bwthdr
	// bwthdr (payload of the block = output of the BWT block codec, i.e. entropy NONE and BWT last in the chain): the BWT
	// header is rebuilt with primary indexes of Width bytes (0 = keep), the stored index of chunk Off is set to Val, and the
	// block length prefix / pre-entropy length are adjusted to the new payload size
	Field  string `json:"field,omitempty"` // hdr: version, ck, entropy, transforms, blocksize, szmask, size, checksum
	Block  int    `json:"block,omitempty"`
	Off    int    `json:"off,omitempty"`   // bytes: offset inside the region; bits/trunc: per mille; setbytes: absolute byte offset
	Width  int    `json:"width,omitempty"` // bytes: 1..4 ; setbytes/append: length
	Val    uint64 `json:"val"`
	Region string `json:"region,omitempty"`  // bytes: head, tail, any
	Lw     int    `json:"lw,omitempty"`      // blklen: forged width (0 = keep)
	KeepCk bool   `json:"keep_ck,omitempty"` // hdr: do NOT recompute the header checksum
}

// C03Case: a valid stream recipe + forging program, or raw bytes.
type C03Case struct {
	Cfg  gen.Config `json:"cfg"`
	Data gen.Recipe `json:"data"`
	Ops  []ForgeOp  `json:"ops,omitempty"`
	Raw  []byte     `json:"raw,omitempty"` // arbitrary bytes presented as a stream (overrides everything)
	Jobs uint       `json:"jobs"`
}

var hostile = []uint64{0, 1, 2, 3, 0x7F, 0x80, 0xFF, 0x100, 0x7FFF, 0x8000, 0xFFFF, 0x10000, 0xFFFFFF, 0x1000000, 0x7FFFFFFF, 0x80000000, 0xFFFFFFFF,
	0x100000000, 0x3FFFFFFFF, 1<<34 - 8, 1 << 34, 0xFFFFFFFFFFFF, 0xFFFFFFFFFFFFFFFF}

// forge applies the ops; it returns the forged bytes, whether the header was targeted, and the
// largest block-length prefix (bits) relative to the declared block size (for KF-16).
func forge(stream []byte, cfg gen.Config, ops []ForgeOp) (out []byte, hdrTouched bool, lenRatio float64) {
	b := kfmt.FromBytes(stream)
	st, err := parseStream(stream, cfg)
	for _, op := range ops {
		switch op.Kind {
		case "trunc":
			n := len(b.B) * (op.Off % 1001) / 1000
			b.B = b.B[:n]
			b.N = 8 * n
			continue
		case "append":
			g := arrBytes(op.Val, max(0, min(op.Width, 1<<16)))
			b.B = append(b.B[:(b.N+7)/8], g...)
			b.N = 8 * len(b.B)
			continue
		case "setbytes":
			for i := 0; i < op.Width; i++ {
				if op.Off+i < len(b.B) {
					b.B[op.Off+i] = byte(op.Val)
				}
			}
			continue
		}
		if err != nil || st == nil {
			continue
		}
		h := &st.Hdr
		switch op.Kind {
		case "hdr":
			if cfg.Headerless || h.Bits == 0 {
				continue
			}
			hdrTouched = true
			switch op.Field {
			case "version":
				h.Version = int(op.Val & 15)
				b.Put(h.OffVersion, 4, op.Val)
			case "ck":
				h.CkSize = int(op.Val & 3)
				b.Put(h.OffCk, 2, op.Val)
			case "entropy":
				h.Entropy = int(op.Val & 31)
				b.Put(h.OffEntropy, 5, op.Val)
			case "transforms":
				h.Transforms = op.Val & (1<<48 - 1)
				b.Put(h.OffTransforms, 48, op.Val)
			case "blocksize":
				h.BlockSize = int(op.Val&(1<<28-1)) << 4
				b.Put(h.OffBlockSize, 28, op.Val)
			case "size":
				if h.SzMask > 0 {
					h.Size = op.Val & (1<<uint(16*h.SzMask) - 1)
					b.Put(h.OffSize, 16*h.SzMask, op.Val)
				}
			case "checksum":
				b.Put(h.OffChecksum, 24, op.Val)
				continue
			}
			if !op.KeepCk {
				b.Put(h.OffChecksum, 24, uint64(kfmt.HeaderChecksum(h.Version, h.CkSize, h.Entropy, h.Transforms, h.BlockSize, h.SzMask, h.Size)))
			}
		case "bwthdr":
			if len(st.Blocks) == 0 {
				continue
			}
			if nb := forgeBWTHeader(b, st, ((op.Block%len(st.Blocks))+len(st.Blocks))%len(st.Blocks), op.Width, op.Off, op.Val); nb != nil {
				b = nb
				// offsets changed: re-parse for the following ops
				st, err = parseStream(b.Bytes(), cfg)
			}
		case "blklen", "prelen", "mode", "skip", "bytes", "bits":
			if len(st.Blocks) == 0 {
				continue
			}
			k := st.Blocks[((op.Block%len(st.Blocks))+len(st.Blocks))%len(st.Blocks)]
			switch op.Kind {
			case "blklen":
				if op.Lw > 0 {
					// rewrite the 5-bit width field; the value keeps its old position/width
					b.Put(k.Start, 5, uint64(op.Lw-3))
				}
				b.Put(k.Start+5, k.LenWidth, op.Val)
				lw := k.LenWidth
				if op.Lw > 0 {
					lw = op.Lw
				}
				if v, e := b.Read(k.Start+5, min(lw, 64)); e == nil && st.Hdr.BlockSize > 0 {
					lenRatio = max(lenRatio, float64(v)/8/float64(max(st.Hdr.BlockSize, int(cfg.BlockSize))))
				}
			case "prelen":
				v := op.Val
				if op.Field == "rel" {
					// relative to the buffer a decoding task uses for a block: D = B + max(512, B/16); Off is per mille of D
					bs := max(st.Hdr.BlockSize, int(cfg.BlockSize))
					d := bs + max(512, bs/16)
					v = uint64(d * op.Off / 1000)
				}
				b.Put(k.PreLenStart, k.PreLenEnd-k.PreLenStart, v)
			case "mode":
				b.Put(k.LenPrefixEnd, 8, op.Val)
			case "skip":
				if op.Field == "all" {
					// every stage flagged as skipped (both encodings of the flags)
					if k.HasSkipByte {
						b.Put(k.LenPrefixEnd+8, 8, 0xFF)
					} else {
						b.Put(k.LenPrefixEnd+4, 4, 0xF)
					}
					continue
				}
				if k.HasSkipByte {
					b.Put(k.LenPrefixEnd+8, 8, op.Val)
				} else {
					b.Put(k.LenPrefixEnd+4, 4, op.Val)
				}
			case "bytes":
				n := (k.End - k.PayloadStart) / 8
				if n <= 0 {
					continue
				}
				w := max(1, min(op.Width, 4))
				var pos int
				switch op.Region {
				case "head":
					pos = op.Off % min(n, 96)
				case "tail":
					pos = n - 1 - op.Off%min(n, 32)
				default:
					pos = op.Off % n
				}
				pos = max(0, min(pos, n-w))
				b.Put(k.PayloadStart+8*pos, 8*w, op.Val)
			case "bits":
				n := k.End - k.PayloadStart
				if n <= 0 {
					continue
				}
				p := k.PayloadStart + (op.Off%1000)*n/1000
				for i := 0; i < max(1, op.Width) && p+i < k.End; i++ {
					if op.Val>>uint(i%64)&1 == 1 || i == 0 {
						b.Flip(p + i)
					}
				}
			}
		}
	}
	if st != nil && err == nil && lenRatio == 0 {
		lenRatio = 0
	}
	return b.Bytes(), hdrTouched, lenRatio
}

// forgeBWTHeader rebuilds block bi whose payload is the raw output of the BWT block codec (format 6:
// mode byte = log2(chunks)<<2 | (index bytes - 1), then one primary index per chunk, then the data).
func forgeBWTHeader(b *kfmt.Bits, st *kfmt.Stream, bi, width, chunk int, val uint64) *kfmt.Bits {
	k := st.Blocks[bi]
	if k.Copy || (k.End-k.PayloadStart)%8 != 0 || k.End-k.PayloadStart < 16 {
		return nil
	}
	n := (k.End - k.PayloadStart) / 8
	pay := make([]byte, n)
	for i := range pay {
		v, _ := b.Read(k.PayloadStart+8*i, 8)
		pay[i] = byte(v)
	}
	mode := pay[0]
	chunks := 1 << ((mode >> 2) & 7)
	psz := int(mode&3) + 1
	if 1+chunks*psz > n {
		return nil
	}
	idx := make([]uint64, chunks)
	for i, p := 0, 1; i < chunks; i++ {
		for j := 0; j < psz; j++ {
			idx[i] = idx[i]<<8 | uint64(pay[p])
			p++
		}
	}
	nsz := psz
	if width >= 1 && width <= 4 {
		nsz = width
	}
	idx[((chunk%chunks)+chunks)%chunks] = val
	np := []byte{mode&^3 | byte(nsz-1)}
	for _, v := range idx {
		for j := nsz - 1; j >= 0; j-- {
			np = append(np, byte(v>>(8*uint(j))))
		}
	}
	np = append(np, pay[1+chunks*psz:]...)
	delta := len(np) - n
	out := kfmt.FromBytes(nil)
	out.AppendRange(b, 0, k.Start)
	newBits := k.LenBits + uint64(8*delta)
	lw := kfmt.LenWidthFor(newBits)
	out.Append(uint64(lw-3), 5)
	out.Append(newBits, lw)
	out.AppendRange(b, k.LenPrefixEnd, k.PreLenStart)
	out.Append(k.PreLen+uint64(delta), k.PreLenEnd-k.PreLenStart)
	out.AppendRange(b, k.HashStart, k.HashEnd)
	for _, c := range np {
		out.Append(uint64(c), 8)
	}
	out.AppendRange(b, k.End, b.N)
	return out
}

// c03Cache keeps the valid stream of the last large (data, configuration) pair: the directed families
// forge the same multi-megabyte base many times.
var c03Cache struct {
	key    uint64
	stream []byte
}

type c03Out struct {
	msg          string
	known        string
	nontrivial   bool
	status       string
	inconclusive string
}

// c03Budget is the time allowed for one decode: 20 s + 2 s per MiB of declared block size x blocks.
func c03Budget(declaredBlock int, blocks int) time.Duration {
	mib := float64(declaredBlock) / (1 << 20) * float64(max(blocks, 1))
	return 20*time.Second + time.Duration(2*mib*float64(time.Second))
}

func c03Materialise(c C03Case) (stream []byte, hdrTouched bool, lenRatio float64, declared int, nblocks int) {
	if c.Raw != nil {
		declared = 1 << 20
		if h, err := kfmt.ParseHeader(kfmt.FromBytes(c.Raw)); err == nil {
			declared = h.BlockSize
		}
		return c.Raw, true, 0, declared, 1
	}
	var valid []byte
	key := vrt.HashOf([]any{c.Cfg, c.Data})
	if c.Data.Len >= 1<<20 && c03Cache.key == key && c03Cache.stream != nil {
		valid = c03Cache.stream
	} else {
		data := c.Data.Expand()
		var err error
		valid, err = Compress(data, c.Cfg, nil)
		if err != nil {
			return nil, false, 0, 0, 0
		}
		if c.Data.Len >= 1<<20 {
			c03Cache.key, c03Cache.stream = key, valid
		}
	}
	st, _ := parseStream(valid, c.Cfg)
	if st != nil {
		nblocks = len(st.Blocks)
	}
	stream, hdrTouched, lenRatio = forge(valid, c.Cfg, c.Ops)
	declared = int(c.Cfg.BlockSize)
	if h, err := kfmt.ParseHeader(kfmt.FromBytes(stream)); err == nil && h.BlockSize > 0 {
		declared = h.BlockSize
	}
	if _, bsz, ok := c03ReaderView(kfmt.FromBytes(stream)); ok && bsz > declared {
		declared = bsz // the layout selected by a forged version field
	}
	return
}

func runC03(r *vrt.Run, sb *Sandbox, c C03Case, maxDeclared int) (o c03Out) {
	stream, hdrTouched, lenRatio, declared, nblocks := c03Materialise(c)
	if stream == nil {
		o.status = "skipped:compress-failed"
		return
	}
	if declared > maxDeclared {
		o.status = "skipped:declared-block-too-large"
		return
	}
	if (lenRatio > 64 || c03LooksLikeKF16(stream)) && r.KnownOpen("KF-16") {
		// a forged block length prefix beyond 64x the declared block size makes the reader allocate up to 2 GiB (KF-16)
		o.status = "excluded:KF-16"
		o.known = "KF-16"
		return
	}
	jobs := max(c.Jobs, 1)
	budget := c03Budget(declared, nblocks)
	r.Inflight("totality", c)
	defer r.InflightDone()
	res := sb.Decode(stream, jobs, budget)
	o.status = "outcome:" + res.Status
	o.nontrivial = hdrTouched || res.Reached > 0
	if res.BlockSize > declared {
		// the reader took a larger block size from the header than the independent parser did (a forged version
		// field selects an older header layout): the rules are stated in terms of what the reader declared
		r.Label("reader-declared-a-larger-block-than-the-v6-layout:" + sizeClass(res.BlockSize))
		declared = res.BlockSize
		if declared > maxDeclared {
			switch res.Status {
			case "ok", "err":
			default:
				o.status = "outcome:not-judged-reader-declared-block-above-cap"
				return
			}
		}
		budget = c03Budget(declared, nblocks)
	}
	switch res.Status {
	case "ok", "err":
		return
	case "zero":
		o.msg = "Read returned (0, nil) for a non-empty buffer: neither data, nor error, nor end of stream"
		return
	case "infra":
		o.inconclusive = "cannot start the sandbox worker: " + res.Detail
		return
	case "timeout":
		// a hang only if it reproduces alone with 5x the budget
		r.Tick()
		solo := &Sandbox{ASLimit: sb.ASLimit}
		patience := 5
		if l := loadPerCPU(); l > 2 {
			// the machine is heavily oversubscribed (other shards, other work): a second opinion needs more patience
			patience = 15
			r.Label("solo-rerun-with-15x-budget-under-load")
		}
		res2 := solo.Decode(stream, jobs, time.Duration(patience)*budget)
		solo.Close()
		if res2.Status == "timeout" {
			o.msg = fmt.Sprintf("decoding does not terminate: no result within %v (declared block size %d, %d blocks, jobs %d), reproduced alone with %dx the budget; %s", time.Duration(patience)*budget, declared, nblocks, jobs, patience, firstLines(res2.Detail, 30))
			return
		}
		o.status = "outcome:slow-not-reproduced"
		return
	case "panic":
		o.msg = "a panic escaped Read on the caller's goroutine: " + res.Detail
		return
	case "died":
		// attribute the death to this case only if it reproduces alone in a fresh worker
		// (a worker that has decoded thousands of streams may die of accumulated garbage)
		r.Tick()
		solo := &Sandbox{ASLimit: sb.ASLimit}
		res2 := solo.Decode(stream, jobs, 3*budget)
		solo.Close()
		if res2.Status != "died" && res2.Status != "panic" {
			o.status = "outcome:death-not-reproduced-alone"
			r.Note("worker death not reproduced alone (status alone: %s): %s", res2.Status, firstLines(res.Detail, 3))
			return
		}
		res = res2
		if res.Status == "panic" {
			o.msg = "a panic escaped Read on the caller's goroutine: " + res.Detail
			return
		}
		oom := strings.Contains(res.Detail, "out of memory") || strings.Contains(res.Detail, "cannot allocate memory")
		if oom {
			honestSmall := declared <= 1<<20 && jobs <= 2 && !strings.HasPrefix(strings.ToUpper(c.Cfg.Entropy), "TPAQ")
			if !honestSmall {
				o.status = "outcome:oom-not-attributable"
				return
			}
			if lenRatio > 64 || r.KnownOpen("KF-16") && c03LooksLikeKF16(stream) {
				o.known = "KF-16"
			}
			o.msg = fmt.Sprintf("the process ran out of memory (4 GiB address-space ceiling) on a stream declaring %d-byte blocks with %d jobs: %s", declared, jobs, firstLines(res.Detail, 12))
			return
		}
		o.msg = fmt.Sprintf("the hosting process died while decoding (declared block size %d, jobs %d): %s", declared, jobs, firstLines(res.Detail, 40))
		return
	}
	return
}

// c03LooksLikeKF16 walks the block length prefixes the way the reader meets them (width field, length, skip that
// many bits, next prefix - whatever the payloads hold): true when some prefix within the first blocks declares more
// than 64 times the declared block size, which makes a decoding task allocate (and clear) up to 2 GiB before it
// looks at anything else (known finding KF-16: out-of-memory death on a constrained host, minutes of stall on a
// busy one).
func c03LooksLikeKF16(stream []byte) bool {
	b := kfmt.FromBytes(stream)
	pos, bsz, ok := c03ReaderView(b)
	if !ok || bsz <= 0 {
		return false
	}
	h := struct{ BlockSize int }{bsz}
	for i := 0; i < 64; i++ {
		lw, e1 := b.Read(pos, 5)
		if e1 != nil {
			return false
		}
		w := int(lw) + 3
		v, e2 := b.Read(pos+5, min(w, 64))
		if e2 != nil || v == 0 {
			return false
		}
		if float64(v)/8 > 64*float64(h.BlockSize) {
			return true
		}
		pos += 5 + w + int(v)
	}
	return false
}

// c03ReaderView tells where the first block starts and which block size is declared, for the header layout that
// the version field selects (a forged version makes the reader use an older layout: one checksum-flag bit instead
// of two, no size field before version 5, a 16-bit / 4-bit / absent header checksum). Restated from the format
// history; it only positions the KF-16 signature.
func c03ReaderView(b *kfmt.Bits) (firstBlock, blockSize int, ok bool) {
	magic, e1 := b.Read(0, 32)
	ver, e2 := b.Read(32, 4)
	if e1 != nil || e2 != nil || magic != 0x4B414E5A || ver > 6 {
		return 0, 0, false
	}
	pos := 36
	if ver >= 6 {
		pos += 2
	} else {
		pos++
	}
	pos += 5 + 48
	bs, e3 := b.Read(pos, 28)
	if e3 != nil {
		return 0, 0, false
	}
	pos += 28
	switch {
	case ver >= 5:
		m, e := b.Read(pos, 2)
		if e != nil {
			return 0, 0, false
		}
		pos += 2 + 16*int(m)
		if ver >= 6 {
			pos += 15 + 24
		} else {
			pos += 16
		}
	default:
		pos += 6 + 4
	}
	return pos, int(bs) << 4, true
}

// loadPerCPU is the 1-minute load average divided by the number of processors (0 when unknown).
func loadPerCPU() float64 {
	b, err := os.ReadFile("/proc/loadavg")
	if err != nil {
		return 0
	}
	var l float64
	fmt.Sscanf(string(b), "%f", &l)
	return l / float64(max(1, runtime.NumCPU()))
}

func firstLines(s string, n int) string {
	lines := strings.Split(s, "\n")
	if len(lines) > n {
		lines = lines[:n]
	}
	return strings.Join(lines, "\n")
}

func c03Eval(r *vrt.Run, sb *Sandbox, c C03Case, maxDeclared int) c03Out {
	o := runC03(r, sb, c, maxDeclared)
	labels := []string{o.status, "entropy:" + c.Cfg.Entropy, "jobs:" + jobsClass(c.Jobs)}
	for _, op := range c.Ops {
		l := "op:" + op.Kind
		if op.Kind == "hdr" {
			l += ":" + op.Field
		}
		labels = append(labels, l)
	}
	if o.nontrivial {
		for _, n := range chainNames(c.Cfg.Transform) {
			labels = append(labels, "reached-with:"+n)
		}
		labels = append(labels, "reached-with-entropy:"+c.Cfg.Entropy)
	}
	if c.Raw != nil {
		labels = append(labels, "raw-bytes")
	}
	r.Eval(vrt.HashOf(c), o.nontrivial, labels...)
	if o.nontrivial && r.WantSample() {
		r.Sample(map[string]any{"cfg": c.Cfg.String(), "data": c.Data.String(), "ops": c.Ops, "jobs": c.Jobs, "raw_bytes": len(c.Raw), "outcome": o.status})
	}
	return o
}

func drawForgeOp(t *rapid.T, nblocks int) ForgeOp {
	val := rapid.OneOf(rapid.SampledFrom(hostile), rapid.Uint64()).Draw(t, "val")
	switch rapid.IntRange(0, 17).Draw(t, "opk") {
	case 16:
		return ForgeOp{Kind: "prelen", Field: "rel", Block: rapid.IntRange(0, nblocks).Draw(t, "blk"),
			Off: rapid.OneOf(rapid.IntRange(900, 1600), rapid.SampledFrom([]int{999, 1000, 1001, 1499, 1500, 1501})).Draw(t, "permille")}
	case 17:
		return ForgeOp{Kind: "skip", Field: "all", Block: rapid.IntRange(0, nblocks).Draw(t, "blk")}
	case 0:
		return ForgeOp{Kind: "hdr", Field: rapid.SampledFrom([]string{"version", "ck", "entropy", "transforms", "blocksize", "size", "checksum"}).Draw(t, "field"), Val: val,
			KeepCk: rapid.IntRange(0, 5).Draw(t, "keepck") == 0}
	case 1:
		// transform word built from valid ids with NONE gaps / reserved ids
		var w uint64
		for i := 0; i < 8; i++ {
			w = w<<6 | uint64(rapid.SampledFrom([]int{0, 0, 1, 2, 3, 4, 5, 6, 7, 8, 9, 10, 11, 12, 13, 14, 15, 16, 17, 18, 19, 20, 22, 63}).Draw(t, "tid"))
		}
		return ForgeOp{Kind: "hdr", Field: "transforms", Val: w}
	case 2:
		return ForgeOp{Kind: "hdr", Field: "blocksize", Val: uint64(rapid.SampledFrom([]int{0, 1, 63, 64, 65, 1024, 65536, 1 << 16, 1 << 20}).Draw(t, "bsz"))}
	case 3:
		return ForgeOp{Kind: "blklen", Block: rapid.IntRange(0, nblocks).Draw(t, "blk"), Val: val, Lw: rapid.SampledFrom([]int{0, 0, 3, 8, 16, 31, 34}).Draw(t, "lw")}
	case 4:
		return ForgeOp{Kind: "prelen", Block: rapid.IntRange(0, nblocks).Draw(t, "blk"), Val: val}
	case 5:
		return ForgeOp{Kind: "mode", Block: rapid.IntRange(0, nblocks).Draw(t, "blk"), Val: uint64(rapid.IntRange(0, 255).Draw(t, "mode"))}
	case 6:
		return ForgeOp{Kind: "skip", Block: rapid.IntRange(0, nblocks).Draw(t, "blk"), Val: uint64(rapid.IntRange(0, 255).Draw(t, "skip"))}
	case 7, 8, 9, 10:
		return ForgeOp{Kind: "bytes", Block: rapid.IntRange(0, nblocks).Draw(t, "blk"), Region: rapid.SampledFrom([]string{"head", "head", "tail", "any"}).Draw(t, "region"),
			Off: rapid.IntRange(0, 1<<16).Draw(t, "off"), Width: rapid.IntRange(1, 4).Draw(t, "width"), Val: val}
	case 11, 12, 13:
		return ForgeOp{Kind: "bits", Block: rapid.IntRange(0, nblocks).Draw(t, "blk"), Off: rapid.IntRange(0, 999).Draw(t, "off"), Width: rapid.IntRange(1, 16).Draw(t, "width"), Val: val}
	case 14:
		return ForgeOp{Kind: "trunc", Off: rapid.IntRange(0, 1000).Draw(t, "keep")}
	default:
		return ForgeOp{Kind: "append", Width: rapid.IntRange(1, 300).Draw(t, "n"), Val: val}
	}
}

func drawC03(t *rapid.T, maxBlock int) C03Case {
	var c C03Case
	c.Cfg = gen.DrawConfig(t, gen.ConfigOpts{MaxBlock: maxBlock, MaxJobs: 2, MaxChain: 4, NoHeadless: true})
	if rapid.Bool().Draw(t, "entropyNone") {
		c.Cfg.Entropy = "NONE" // exposes the transform's own header fields to the byte forger
	}
	bs := int(c.Cfg.BlockSize)
	nb := rapid.IntRange(1, 5).Draw(t, "nblocks")
	ln := nb*bs - rapid.IntRange(0, bs-1).Draw(t, "short")
	if c.Cfg.Entropy == "TPAQ" || c.Cfg.Entropy == "TPAQX" || c.Cfg.Entropy == "CM" {
		ln = min(ln, 2*bs)
	}
	c.Data = gen.DrawRecipe(t, 1, "data")
	c.Data.Len = max(16, ln)
	c.Cfg.Hint, c.Cfg.HintClass = 0, "absent"
	if rapid.Bool().Draw(t, "hint") {
		c.Cfg.Hint, c.Cfg.HintClass = int64(c.Data.Len), "exact"
	}
	n := rapid.IntRange(1, 3).Draw(t, "nops")
	for i := 0; i < n; i++ {
		c.Ops = append(c.Ops, drawForgeOp(t, nb))
	}
	c.Jobs = uint(rapid.IntRange(1, 8).Draw(t, "jobs"))
	return c
}

func TestC03(t *testing.T) {
	r := start(t, "C03")
	sb := &Sandbox{ASLimit: 4 << 30}
	defer sb.Close()
	maxDeclared := r.Pick(16<<20, 64<<20)
	handle := func(c C03Case, o c03Out, src string, tt interface{ Fatalf(string, ...any) }) bool {
		if o.inconclusive != "" {
			r.Note("inconclusive: %s", o.inconclusive)
			return false
		}
		if o.msg == "" {
			if o.known != "" {
				r.Excluded(o.known)
			}
			return false
		}
		if o.known != "" && r.KnownOpen(o.known) {
			if src != "" {
				r.KnownLine(o.known + " " + firstLine(o.msg))
			} else {
				r.Excluded(o.known)
			}
			return false
		}
		if src != "" {
			r.RecordFailure("totality", c, src, o.msg)
			tt.Fatalf("replay %s: %s", src, o.msg)
			return true
		}
		r.Violation(tt, "totality", c, "%s", o.msg)
		return true
	}
	for _, p := range r.ReplayFiles() {
		ff, err := vrt.LoadFail(p)
		if err != nil {
			t.Fatalf("unreadable replay file %s: %v", p, err)
		}
		var c C03Case
		if err := json.Unmarshal(ff.Case, &c); err != nil {
			t.Fatalf("bad case in %s: %v", p, err)
		}
		md := maxDeclared
		if strings.Contains(filepath.Base(p), "kf16") {
			md = 1 << 30
		}
		o := c03EvalReplay(r, sb, c, md, strings.Contains(filepath.Base(p), "kf16"))
		handle(c, o, p, t)
		r.Label("replayed")
	}
	if r.ReplayOnly() {
		return
	}
	r.Rapid(t, "forged-streams", 6000, 300000, func(t *rapid.T) {
		c := drawC03(t, 16384)
		handle(c, c03Eval(r, sb, c, maxDeclared), "", t)
	})
	r.Rapid(t, "forged-streams-larger-blocks", 160, 12000, func(t *rapid.T) {
		c := drawC03(t, r.Pick(1<<20, 8<<20))
		handle(c, c03Eval(r, sb, c, maxDeclared), "", t)
	})
	// Directed family: primary indexes of the BWT header, for the sequential inverse (block <= 4 MiB) and for the
	// chunk-parallel inverse run by helper goroutines (block > 4 MiB). Every chunk x boundary values around the block
	// length, the limits of each index width (3-byte fields are rebuilt as 4-byte fields for values that need it) and the
	// sign bit; a panic in a helper goroutine cannot be recovered by the task, which is why this needs the sandbox.
	if !r.Failed() {
		type base struct {
			ln   int
			tr   string
			jobs []uint
		}
		bases := []base{{300000, "BWT", []uint{1, 3}}, {4<<20 + 4097, "BWT", []uint{1, 4}}}
		if r.Thorough() {
			bases = append(bases, base{4<<20 + 1, "TEXT+BWT", []uint{2, 5, 8}}, base{9 << 20, "BWT", []uint{1, 7}}, base{255, "BWT", []uint{1}}, base{256, "BWT", []uint{2}})
		}
		idx := 0
		for _, bs := range bases {
			count := uint64(bs.ln)
			vals := []uint64{0, 1, count / 2, count - 2, count - 1, count, count + 1, 1<<24 - 1, 1 << 24, 1<<31 - 1, 1 << 31, 1<<32 - 1}
			chunks := []int{0, 1, 7}
			if r.Thorough() {
				chunks = []int{0, 1, 2, 3, 4, 5, 6, 7}
			}
			for _, ch := range chunks {
				for _, v := range vals {
					for _, jobs := range bs.jobs {
						idx++
						if !r.Mine(idx) || r.Failed() {
							continue
						}
						w := 0
						if v >= 1<<24 {
							w = 4
						}
						c := C03Case{Cfg: gen.Config{Transform: bs.tr, Entropy: "NONE", BlockSize: 16 << 20, Jobs: 1, Checksum: []uint{0, 32}[idx%2], HintClass: "absent"},
							Data: gen.Recipe{Kind: gen.KText, Len: bs.ln, Seed: 5}, Ops: []ForgeOp{{Kind: "bwthdr", Block: 0, Off: ch, Width: w, Val: v}}, Jobs: jobs}
						if bs.ln > 4<<20 && idx%3 == 0 {
							// with the size in the header a block task may own several jobs: more than one helper goroutine
							c.Cfg.Hint, c.Cfg.HintClass = int64(bs.ln), "exact"
						}
						o := c03Eval(r, sb, c, maxDeclared)
						r.Label("directed:bwt-primary-index")
						if handle(c, o, "", t) {
							return
						}
					}
				}
			}
		}
		r.SetExhaustive("BWT primary index family (chunks x boundary values x jobs)", true)
	}
	r.Rapid(t, "random-bytes", 1000, 60000, func(t *rapid.T) {
		var c C03Case
		n := rapid.IntRange(0, 600).Draw(t, "n")
		c.Raw = arrBytes(rapid.Uint64().Draw(t, "seed"), n)
		if rapid.IntRange(0, 3).Draw(t, "magic") != 0 && n >= 20 {
			// valid magic/version/checksum in front of random bytes: gets past the header
			h := kfmt.FromBytes(nil)
			bsz := rapid.SampledFrom([]int{1024, 4096, 65536, 1 << 20}).Draw(t, "bsz")
			en := rapid.IntRange(0, 10).Draw(t, "en")
			var tw uint64
			for i := 0; i < 8; i++ {
				tw = tw<<6 | uint64(rapid.IntRange(0, 19).Draw(t, "tid"))
				if rapid.IntRange(0, 2).Draw(t, "stop") == 0 {
					tw <<= uint(6 * (7 - i))
					break
				}
			}
			ck := rapid.IntRange(0, 2).Draw(t, "ck")
			h.Append(0x4B414E5A, 32)
			h.Append(6, 4)
			h.Append(uint64(ck), 2)
			h.Append(uint64(en), 5)
			h.Append(tw, 48)
			h.Append(uint64(bsz>>4), 28)
			h.Append(0, 2)
			h.Append(0, 15)
			h.Append(uint64(kfmt.HeaderChecksum(6, ck, en, tw, bsz, 0, 0)), 24)
			c.Raw = append(h.Bytes(), c.Raw...)
		}
		c.Cfg.Entropy, c.Cfg.Transform = "?", "?"
		c.Jobs = uint(rapid.IntRange(1, 8).Draw(t, "jobs"))
		handle(c, c03Eval(r, sb, c, maxDeclared), "", t)
	})
	if r.Thorough() && os.Getenv("VERIF_NOFUZZ") == "" {
		c03NativeFuzz(t, r, sb, maxDeclared, handle)
	}
}

// c03EvalReplay is c03Eval, except that the KF-16 witness must actually be executed (not pre-filtered).
func c03EvalReplay(r *vrt.Run, sb *Sandbox, c C03Case, maxDeclared int, forceRun bool) c03Out {
	if !forceRun {
		return c03Eval(r, sb, c, maxDeclared)
	}
	stream, _, _, declared, nblocks := c03Materialise(c)
	if stream == nil {
		return c03Out{status: "skipped:compress-failed"}
	}
	solo := &Sandbox{ASLimit: 1536 << 20} // the documented witness condition: 1.5 GB address space
	defer solo.Close()
	res := solo.Decode(stream, max(c.Jobs, 1), c03Budget(declared, nblocks)+60*time.Second)
	o := c03Out{status: "outcome:" + res.Status, nontrivial: true}
	if res.Status == "died" && strings.Contains(res.Detail, "out of memory") {
		o.known = "KF-16"
		o.msg = fmt.Sprintf("forged 34-bit block length on a stream declaring %d-byte blocks: the reader allocates 2 GiB and the process dies with 'fatal error: out of memory' under a 1.5 GB address-space limit", declared)
	} else if res.Status == "died" || res.Status == "panic" || res.Status == "timeout" {
		o.msg = "the hosting process died / hung: " + firstLines(res.Detail, 20)
	}
	r.Eval(vrt.HashOf(c), true, "replayed:kf16")
	return o
}

// c03NativeFuzz runs `go test -fuzz` on FuzzReader for a wall-clock budget and re-judges every crasher in the sandbox.
func c03NativeFuzz(t *testing.T, r *vrt.Run, sb *Sandbox, maxDeclared int, handle func(C03Case, c03Out, string, interface{ Fatalf(string, ...any) }) bool) {
	if r.Shard != 0 {
		return
	}
	gobin := os.Getenv("VERIF_GO")
	if gobin == "" {
		gobin = "go"
	}
	dir := filepath.Join(r.Root, "harness", "checks")
	corpus := filepath.Join(r.Out, "fuzzcorpus")
	os.MkdirAll(corpus, 0o755)
	budget := os.Getenv("VERIF_FUZZTIME")
	if budget == "" {
		budget = "300s"
	}
	cmd := exec.Command(gobin, "test", "-tags", "verif", "-run", "^$", "-fuzz", "^FuzzReader$", "-fuzztime", budget, "-parallel", "6", "-test.fuzzcachedir", corpus, ".")
	cmd.Dir = dir
	cmd.Env = append(os.Environ(), "GOFLAGS=-mod=mod", "GOMAXPROCS=8")
	out, err := cmd.CombinedOutput()
	r.Note("native fuzzing (%s, 6 workers): %s", budget, lastLines(string(out), 4))
	crashers, _ := filepath.Glob(filepath.Join(dir, "testdata", "fuzz", "FuzzReader", "*"))
	for _, f := range crashers {
		raw, jobs := readFuzzFile(f)
		os.Remove(f)
		if raw == nil {
			continue
		}
		c := C03Case{Raw: raw, Jobs: jobs}
		c.Cfg.Entropy, c.Cfg.Transform = "?", "?"
		o := c03Eval(r, sb, c, maxDeclared)
		r.Label("fuzz-crasher-rejudged")
		if handle(c, o, "", t) {
			return
		}
	}
	if err != nil && len(crashers) == 0 {
		r.Note("native fuzzing ended with %v and no saved crasher (treated as inconclusive)", err)
	}
}

func lastLines(s string, n int) string {
	lines := strings.Split(strings.TrimSpace(s), "\n")
	if len(lines) > n {
		lines = lines[len(lines)-n:]
	}
	return strings.Join(lines, " | ")
}
