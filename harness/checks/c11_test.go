package checks

import (
	"bytes"
	"encoding/json"
	"fmt"
	"math"
	"os"
	"path/filepath"
	"testing"

	kanzi "github.com/flanglet/kanzi-go/v2"
	"pgregory.net/rapid"

	"verif/harness/fio"
	"verif/harness/gen"
	"verif/harness/vrt"
)

// C11Case: a stream decoded with a block range. From/To <= 0 means "not given".
type C11Case struct {
	Cfg      gen.Config `json:"cfg"`
	Data     gen.Recipe `json:"data"`
	From     int        `json:"from"`
	To       int        `json:"to"`
	Sweep    bool       `json:"sweep,omitempty"` // all 1 <= from <= to <= nblocks+3, plus from-only / to-only
	ReadJobs uint       `json:"read_jobs"`
	ReadBufs []int      `json:"read_bufs,omitempty"`
	CLI      bool       `json:"cli,omitempty"` // the range is given to the command-line tool (--from / --to) instead of the library context
}

// c11CLI decodes the stream with the command-line tool built from the working tree.
func c11CLI(c C11Case, p *c11Pre, from, to int, work string) (msg string) {
	bs := int(c.Cfg.BlockSize)
	os.MkdirAll(work, 0o755)
	in := filepath.Join(work, "s.knz")
	out := filepath.Join(work, "s.out")
	os.Remove(out)
	if err := os.WriteFile(in, p.stream, 0o644); err != nil {
		return ""
	}
	args := []string{"-d", "-v", "0", "-f", "-j", fmt.Sprint(max(c.ReadJobs, 1)), "-i", in, "-o", out}
	lo, hi := 0, len(p.data)
	if from > 0 {
		args = append(args, fmt.Sprintf("--from=%d", from))
		lo = min(len(p.data), (from-1)*bs)
	}
	if to > 0 {
		args = append(args, fmt.Sprintf("--to=%d", to))
		hi = min(len(p.data), (to-1)*bs)
	}
	if hi < lo {
		hi = lo
	}
	res := runCLI(work, nil, args...)
	desc := fmt.Sprintf("command-line tool, range [from=%d, to=%d) of %d blocks of %d bytes, jobs %d", from, to, p.nblocks, bs, c.ReadJobs)
	if res.rc != 0 {
		return fmt.Sprintf("%s: exit %d: %s %s", desc, res.rc, firstLines(res.out, 4), firstLines(res.err, 6))
	}
	got, _ := os.ReadFile(out)
	if !bytes.Equal(got, p.data[lo:hi]) {
		return fmt.Sprintf("%s: wrote %d bytes, expected the %d bytes of blocks %d..%d; first difference at %d", desc, len(got), hi-lo, max(from, 1), to-1, firstDiff(got, p.data[lo:hi]))
	}
	return ""
}

type c11Pre struct {
	data, stream []byte
	nblocks      int
}

func c11Prepare(c C11Case) *c11Pre {
	p := &c11Pre{}
	p.data = markedData(c.Data, c.Cfg.BlockSize)
	var err error
	p.stream, err = Compress(p.data, c.Cfg, nil)
	if err != nil {
		return nil
	}
	bs := int(c.Cfg.BlockSize)
	p.nblocks = (len(p.data) + bs - 1) / bs
	return p
}

// c11Range decodes with [from,to) and checks the slice; from/to <= 0 = absent.
func c11Range(c C11Case, p *c11Pre, from, to int, small bool) (msg string, nontrivial bool) {
	bs := int(c.Cfg.BlockSize)
	extra := map[string]any{}
	if small {
		extra["verif.smallbuf"] = true
	}
	lo, hi := 0, len(p.data)
	if from > 0 {
		extra["from"] = from
		lo = min(len(p.data), (min(from, p.nblocks+2)-1)*bs) // clamped before multiplying: bounds may be huge
	}
	if to > 0 {
		extra["to"] = to
		hi = min(len(p.data), (min(to, p.nblocks+2)-1)*bs)
	}
	if hi < lo {
		hi = lo
	}
	want := p.data[lo:hi]
	ev := newEvRec()
	rd, err := openReader(fio.NewSource(p.stream), c.Cfg, c.ReadJobs, extra, ev)
	if err != nil {
		return fmt.Sprintf("range [%d,%d): reader construction failed: %v", from, to, err), false
	}
	tr := ReadOn(rd, c.ReadBufs, 0, 1<<20)
	guard(func() error { rd.Close(); return nil })
	desc := fmt.Sprintf("range [from=%d, to=%d) of %d blocks of %d bytes, reader jobs %d", from, to, p.nblocks, bs, c.ReadJobs)
	if tr.Panic != "" {
		return desc + ": Read faulted: " + tr.Panic, false
	}
	if tr.FirstErr != nil {
		return fmt.Sprintf("%s: error after %d bytes: %v", desc, len(tr.Acc), tr.FirstErr), false
	}
	if !tr.SawEOF {
		return desc + ": no end of stream", false
	}
	if !bytes.Equal(tr.Acc, want) {
		return fmt.Sprintf("%s: returned %d bytes, expected the %d bytes of blocks %d..%d; first difference at %d", desc, len(tr.Acc), len(want), max(from, 1), to-1, firstDiff(tr.Acc, want)), false
	}
	// blocks outside the range must be skipped without being decoded
	for _, id := range ev.blocksWith(kanzi.EVT_BEFORE_ENTROPY) {
		if (from > 0 && id < from) || (to > 0 && id >= to) {
			return fmt.Sprintf("%s: block %d lies outside the range but was decoded (BEFORE_ENTROPY event seen)", desc, id), false
		}
	}
	j := int(c.ReadJobs)
	f := max(from, 1)
	inside := f > 1 && to > 0 && to <= p.nblocks
	unaligned := (f-1)%j != 0 || (to > 0 && (to-1)%j != 0)
	allSkippedBatch := j > 1 && f-1 >= j
	nontrivial = (inside && unaligned) || allSkippedBatch
	return "", nontrivial
}

func drawC11(t *rapid.T) C11Case {
	var c C11Case
	c.Cfg = gen.DrawConfig(t, gen.ConfigOpts{MaxBlock: 4096, MaxJobs: 3, MaxChain: 3})
	bs := int(c.Cfg.BlockSize)
	nb := rapid.IntRange(1, 12).Draw(t, "nblocks")
	ln := nb * bs
	if rapid.Bool().Draw(t, "shortLast") {
		ln -= rapid.IntRange(1, bs-1).Draw(t, "short")
	}
	if c.Cfg.Entropy == "TPAQ" || c.Cfg.Entropy == "TPAQX" || c.Cfg.Entropy == "CM" {
		ln = min(ln, 3*bs)
	}
	c.Data = gen.DrawRecipe(t, 1, "data")
	c.Data.Len = ln
	c.Cfg.Hint, c.Cfg.HintClass = 0, "absent"
	if rapid.Bool().Draw(t, "hint") {
		c.Cfg.Hint, c.Cfg.HintClass = int64(ln), "exact"
	}
	c.Sweep = true
	c.ReadJobs = uint(rapid.IntRange(1, 8).Draw(t, "readJobs"))
	if rapid.Bool().Draw(t, "rbufs") {
		c.ReadBufs = rapid.SliceOfN(rapid.OneOf(rapid.IntRange(1, 9), rapid.IntRange(bs-1, bs+1), rapid.IntRange(1, 3*bs)), 1, 5).Draw(t, "readBufs")
	}
	return c
}

func c11Sweep(r *vrt.Run, c C11Case) (string, C11Case) {
	p := c11Prepare(c)
	if p == nil {
		r.Label("skipped:compress-failed")
		return "", c
	}
	// the unrestricted decode must work, otherwise the failure is not about ranges
	if out, err := Decompress(p.stream, c.Cfg, c.ReadJobs, nil); err != nil || !bytes.Equal(out, p.data) {
		r.Label("skipped:plain-roundtrip-fails")
		return "", c
	}
	r.Inflight("range", c)
	defer r.InflightDone()
	type rg struct{ f, t int }
	var ranges []rg
	for f := 1; f <= p.nblocks+3; f++ {
		for t := f; t <= p.nblocks+3; t++ {
			ranges = append(ranges, rg{f, t})
		}
		ranges = append(ranges, rg{f, 0})
	}
	for t := 1; t <= p.nblocks+3; t++ {
		ranges = append(ranges, rg{0, t})
	}
	// "to the end" spelled as a huge bound (callers write math.MaxInt32, 1<<40, math.MaxInt), and ranges far beyond the end
	ranges = append(ranges, rg{p.nblocks + 70, p.nblocks + 90}, rg{1, 1 << 30}, rg{2, 1<<31 - 1}, rg{1, 1 << 31}, rg{2, 1 << 32}, rg{1, 1 << 40},
		rg{max(1, p.nblocks-1), math.MaxInt}, rg{1 << 31, 1 << 33}, rg{1 << 40, 0})
	for _, x := range ranges {
		r.Tick()
		msg, nt := c11Range(c, p, x.f, x.t, true)
		cc := c
		cc.Sweep, cc.From, cc.To = false, x.f, x.t
		kind := "range:both"
		if x.f == 0 {
			kind = "range:to-only"
		} else if x.t == 0 {
			kind = "range:from-only"
		} else if x.f == x.t {
			kind = "range:empty"
		} else if x.f > p.nblocks {
			kind = "range:beyond-last-block"
		}
		r.Eval(vrt.HashOf(cc), nt, kind, fmt.Sprintf("rjobs:%d", c.ReadJobs), "entropy:"+c.Cfg.Entropy)
		if msg != "" {
			return msg, cc
		}
	}
	if r.WantSample() {
		r.Sample(map[string]any{"cfg": c.Cfg.String(), "data": c.Data.String(), "blocks": p.nblocks, "ranges_tried": len(ranges), "read_jobs": c.ReadJobs, "read_bufs": clipInts(c.ReadBufs, 5)})
	}
	return "", c
}

func TestC11(t *testing.T) {
	r := start(t, "C11")
	for _, p := range r.ReplayFiles() {
		ff, err := vrt.LoadFail(p)
		if err != nil {
			t.Fatalf("unreadable replay file %s: %v", p, err)
		}
		var c C11Case
		if err := json.Unmarshal(ff.Case, &c); err != nil {
			t.Fatalf("bad case in %s: %v", p, err)
		}
		var msg string
		if c.Sweep {
			msg, c = c11Sweep(r, c)
		} else if pre := c11Prepare(c); pre != nil {
			var nt bool
			if c.CLI {
				if cliPath() != "" {
					msg, nt = c11CLI(c, pre, c.From, c.To, filepath.Join(r.Out, fmt.Sprintf("cli-work-%d", r.Shard))), true
				}
			} else {
				msg, nt = c11Range(c, pre, c.From, c.To, false)
			}
			r.Eval(vrt.HashOf(c), nt, "replayed")
		}
		if msg != "" {
			r.RecordFailure("range", c, p, msg)
			t.Fatalf("replay %s: %s", p, msg)
		}
	}
	if r.ReplayOnly() {
		return
	}
	r.Rapid(t, "streams-all-ranges", 260, 8000, func(t *rapid.T) {
		c := drawC11(t)
		if msg, fc := c11Sweep(r, c); msg != "" {
			r.Violation(t, "range", fc, "%s", msg)
		}
	})
	// a long stream: more than 63 blocks with the size stored in the header (block-count caps live at 63/64)
	r.Rapid(t, "many-blocks", 16, 400, func(t *rapid.T) {
		nb := rapid.IntRange(60, 140).Draw(t, "nblocks")
		c := C11Case{Cfg: gen.Config{Transform: rapid.SampledFrom([]string{"NONE", "LZ", "RLT"}).Draw(t, "tr"), Entropy: rapid.SampledFrom([]string{"NONE", "HUFFMAN"}).Draw(t, "en"),
			BlockSize: 1024, Jobs: 4, Checksum: rapid.SampledFrom([]uint{0, 32}).Draw(t, "ck")}, Data: gen.Recipe{Kind: gen.KText, Len: nb*1024 - rapid.IntRange(0, 1023).Draw(t, "short"), Seed: 5},
			ReadJobs: uint(rapid.IntRange(1, 8).Draw(t, "readJobs"))}
		if rapid.Bool().Draw(t, "hint") {
			c.Cfg.Hint, c.Cfg.HintClass = int64(c.Data.Len), "exact"
		}
		p := c11Prepare(c)
		if p == nil {
			t.Skip("compress failed")
		}
		for i := 0; i < 40; i++ {
			f := rapid.IntRange(1, nb+2).Draw(t, "from")
			to := f + rapid.IntRange(0, 70).Draw(t, "span")
			msg, nt := c11Range(c, p, f, to, true)
			cc := c
			cc.From, cc.To = f, to
			r.Eval(vrt.HashOf(cc), nt, "range:many-blocks", fmt.Sprintf("rjobs:%d", c.ReadJobs))
			if msg != "" {
				r.Violation(t, "range", cc, "%s", msg)
			}
		}
	})
	// the same ranges through the command-line tool (--from / --to), which forwards them to the Reader
	if cliPath() != "" && !r.Failed() {
		work := filepath.Join(r.Out, fmt.Sprintf("cli-work-%d", r.Shard))
		defer os.RemoveAll(work)
		r.Rapid(t, "cli-ranges", 16, 600, func(t *rapid.T) {
			c := drawC11(t)
			c.CLI, c.Sweep, c.Cfg.Headerless = true, false, false
			c.Data.Len = min(c.Data.Len, 6*int(c.Cfg.BlockSize))
			if c.Cfg.Hint > 0 {
				c.Cfg.Hint = int64(c.Data.Len) // the tool checks the full output against the size recorded in the header
			}
			p := c11Prepare(c)
			if p == nil {
				t.Skip("compress failed")
			}
			if out, err := Decompress(p.stream, c.Cfg, c.ReadJobs, nil); err != nil || !bytes.Equal(out, p.data) {
				t.Skip("plain round trip fails")
			}
			r.Inflight("range", c)
			defer r.InflightDone()
			for f := 0; f <= p.nblocks+2; f++ {
				for to := 0; to <= p.nblocks+2; to++ {
					if f > 0 && to > 0 && to < f {
						continue
					}
					r.Tick()
					msg := c11CLI(c, p, f, to, work)
					cc := c
					cc.From, cc.To = f, to
					r.Eval(vrt.HashOf(cc), f > 0 || to > 0, "range:cli", fmt.Sprintf("rjobs:%d", c.ReadJobs))
					if msg != "" {
						r.Violation(t, "range", cc, "%s", msg)
					}
				}
			}
		})
	}
}
