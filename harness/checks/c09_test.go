package checks

import (
	"encoding/json"
	"fmt"
	"testing"

	"pgregory.net/rapid"

	"verif/harness/fio"
	"verif/harness/gen"
	"verif/harness/kfmt"
	"verif/harness/vrt"
)

// C09Case: a valid stream cut at one position (Cut >= 0) or at a set of positions.
type C09Case struct {
	Cfg      gen.Config `json:"cfg"`
	Data     gen.Recipe `json:"data"`
	Cut      int        `json:"cut"` // bytes kept; -1 = sweep (all cuts / boundary cuts)
	ReadJobs uint       `json:"read_jobs"`
	ReadBuf  int        `json:"read_buf,omitempty"`
}

type c09Pre struct {
	data, stream []byte
	st           *kfmt.Stream
	hdrBytes     int
}

func c09Prepare(c C09Case) (*c09Pre, string) {
	p := &c09Pre{}
	p.data = markedData(c.Data, c.Cfg.BlockSize)
	var err error
	p.stream, err = Compress(p.data, c.Cfg, nil)
	if err != nil {
		return nil, "skipped:compress-failed"
	}
	p.st, err = parseStream(p.stream, c.Cfg)
	if err != nil {
		return nil, "skipped:kfmt"
	}
	p.hdrBytes = (p.st.Hdr.Bits + 7) / 8
	return p, ""
}

// c09Cut decodes stream[:cut]; returns "" when the truncation was detected properly.
func c09Cut(c C09Case, p *c09Pre, cut int, small bool) (msg string) {
	var extra map[string]any
	if small {
		extra = map[string]any{"verif.smallbuf": true}
	}
	rd, err := openReader(fio.NewSource(p.stream[:cut]), c.Cfg, c.ReadJobs, extra, nil)
	if err != nil {
		return "" // refused at construction: detected
	}
	buf := c.ReadBuf
	if buf <= 0 {
		buf = 65536
	}
	tr := ReadOn(rd, []int{buf}, 0, 1<<20)
	guard(func() error { rd.Close(); return nil })
	if tr.Panic != "" {
		return fmt.Sprintf("cut at %d/%d bytes: Read faulted: %s", cut, len(p.stream), tr.Panic)
	}
	if !isPrefix(tr.Acc, p.data) {
		return fmt.Sprintf("cut at %d/%d bytes: bytes delivered before the error are not a prefix of the original (first difference at %d)", cut, len(p.stream), firstDiff(tr.Acc, p.data))
	}
	if tr.FirstErr == nil {
		if tr.SawEOF {
			return fmt.Sprintf("cut at %d/%d bytes (stream of %d blocks, header %d bytes): truncated stream reported as complete (clean EOF after %d of %d bytes)", cut, len(p.stream), len(p.st.Blocks), p.hdrBytes, len(tr.Acc), len(p.data))
		}
		return fmt.Sprintf("cut at %d/%d bytes: reader neither failed nor ended", cut, len(p.stream))
	}
	return ""
}

// c09Cuts lists the cut positions of a sweep.
func c09Cuts(p *c09Pre, all bool, extra []int) []int {
	n := len(p.stream)
	seen := map[int]bool{}
	var cuts []int
	add := func(c int) {
		if c >= 0 && c < n && !seen[c] {
			seen[c] = true
			cuts = append(cuts, c)
		}
	}
	if all {
		for c := 0; c < n; c++ {
			add(c)
		}
		return cuts
	}
	for c := 0; c <= p.hdrBytes+2; c++ {
		add(c)
	}
	for _, k := range p.st.Blocks {
		for d := -2; d <= 2; d++ {
			add(k.Start/8 + d)
			add(k.End/8 + d)
			add((k.PayloadStart+7)/8 + d)
		}
	}
	for c := n - 16; c < n; c++ {
		add(c)
	}
	for _, c := range extra {
		add(c)
	}
	return cuts
}

func drawC09(t *rapid.T, maxBlock, maxBlocks int) C09Case {
	var c C09Case
	c.Cfg = gen.DrawConfig(t, gen.ConfigOpts{MaxBlock: maxBlock, MaxJobs: 2, MaxChain: 4})
	bs := int(c.Cfg.BlockSize)
	nb := rapid.IntRange(0, maxBlocks).Draw(t, "nblocks")
	ln := nb*bs - rapid.IntRange(0, bs-1).Draw(t, "short")
	if c.Cfg.Entropy == "TPAQ" || c.Cfg.Entropy == "TPAQX" || c.Cfg.Entropy == "CM" {
		ln = min(ln, 2*bs)
	}
	c.Data = gen.DrawRecipe(t, 1, "data")
	c.Data.Len = max(0, ln)
	c.Cfg.Hint, c.Cfg.HintClass = 0, "absent"
	if rapid.Bool().Draw(t, "hint") {
		c.Cfg.Hint, c.Cfg.HintClass = int64(c.Data.Len), "exact"
	}
	c.Cut = -1
	c.ReadJobs = gen.DrawJobs(t, 8, "readJobs")
	c.ReadBuf = rapid.SampledFrom([]int{0, 1, 100, bs, bs + 1, 3 * bs}).Draw(t, "readBuf")
	return c
}

func c09Sweep(r *vrt.Run, c C09Case, extraCuts []int) (msg string, failing C09Case) {
	p, skip := c09Prepare(c)
	if p == nil {
		r.Label(skip)
		return "", c
	}
	// codecs that allocate megabytes of tables per block make an all-positions sweep cost minutes:
	// those streams get the boundary-focused sweep plus every 7th position
	heavy := c.Cfg.Entropy == "TPAQ" || c.Cfg.Entropy == "TPAQX" || c.Cfg.Entropy == "CM"
	for _, n := range chainNames(c.Cfg.Transform) {
		if n == "ROLZ" || n == "ROLZX" {
			heavy = true
		}
	}
	all := len(p.stream) <= 8192 && !heavy
	if heavy {
		for k, step := 0, max(7, len(p.stream)/300); k < len(p.stream); k += step {
			extraCuts = append(extraCuts, k)
		}
	}
	cuts := c09Cuts(p, all, extraCuts)
	r.Inflight("truncation", c)
	defer r.InflightDone()
	for _, cut := range cuts {
		r.Tick()
		m := c09Cut(c, p, cut, true)
		nontrivial := cut > p.hdrBytes
		cc := c
		cc.Cut = cut
		lab := "cut:in-blocks"
		if !nontrivial {
			lab = "cut:in-header"
		} else if cut >= len(p.stream)-2 {
			lab = "cut:last-bytes"
		}
		sweep := "sweep:boundaries+random"
		if all {
			sweep = "sweep:all-positions"
		}
		r.Eval(vrt.HashOf(cc), nontrivial, lab, sweep, fmt.Sprintf("ck:%d", c.Cfg.Checksum), "entropy:"+c.Cfg.Entropy, "rjobs:"+jobsClass(c.ReadJobs))
		if m != "" {
			return m, cc
		}
	}
	if r.WantSample() {
		r.Sample(map[string]any{"cfg": c.Cfg.String(), "data": c.Data.String(), "stream_bytes": len(p.stream), "blocks": len(p.st.Blocks),
			"cuts_tried": len(cuts), "all_positions": all, "read_jobs": c.ReadJobs, "read_buf": c.ReadBuf})
	}
	return "", c
}

func TestC09(t *testing.T) {
	r := start(t, "C09")
	for _, p := range r.ReplayFiles() {
		ff, err := vrt.LoadFail(p)
		if err != nil {
			t.Fatalf("unreadable replay file %s: %v", p, err)
		}
		var c C09Case
		if err := json.Unmarshal(ff.Case, &c); err != nil {
			t.Fatalf("bad case in %s: %v", p, err)
		}
		var msg string
		if c.Cut >= 0 {
			pre, _ := c09Prepare(c)
			if pre != nil && c.Cut < len(pre.stream) {
				msg = c09Cut(c, pre, c.Cut, false)
				r.Eval(vrt.HashOf(c), c.Cut > pre.hdrBytes, "replayed")
			}
		} else {
			msg, c = c09Sweep(r, c, nil)
		}
		if msg != "" {
			r.RecordFailure("truncation", c, p, msg)
			t.Fatalf("replay %s: %s", p, msg)
		}
	}
	if r.ReplayOnly() {
		return
	}
	r.Rapid(t, "small-streams-all-cuts", 90, 4000, func(t *rapid.T) {
		c := drawC09(t, 2048, 3)
		if msg, fc := c09Sweep(r, c, nil); msg != "" {
			r.Violation(t, "truncation", fc, "%s", msg)
		}
	})
	r.Rapid(t, "larger-streams-boundary-cuts", 60, 2500, func(t *rapid.T) {
		c := drawC09(t, 65536, 9)
		var extra []int
		for i := 0; i < 40; i++ {
			extra = append(extra, rapid.IntRange(0, 1<<22).Draw(t, "cutpos"))
		}
		// positions are reduced modulo the stream length inside the sweep
		p, _ := c09Prepare(c)
		if p != nil && len(p.stream) > 0 {
			for i := range extra {
				extra[i] %= len(p.stream)
			}
		}
		if msg, fc := c09Sweep(r, c, extra); msg != "" {
			r.Violation(t, "truncation", fc, "%s", msg)
		}
	})
}
