package checks

import (
	"bytes"
	"encoding/json"
	"fmt"
	"testing"

	"github.com/flanglet/kanzi-go/v2/bitstream"
	"pgregory.net/rapid"

	"verif/harness/fio"
	"verif/harness/vrt"
)

// BitOp is one bit-level operation. K: "bit", "bits", "arr".
type BitOp struct {
	K     string `json:"k"`
	N     int    `json:"n"`               // bit count
	V     uint64 `json:"v,omitempty"`     // value for bit/bits (garbage above bit n allowed)
	Seed  uint64 `json:"seed,omitempty"`  // array content
	Slack int    `json:"slack,omitempty"` // extra bytes in the array passed to WriteArray
}

// C14Case is a writer program and a reader program over the same bit sequence.
type C14Case struct {
	WBuf      uint    `json:"wbuf"`
	RBuf      uint    `json:"rbuf"`
	Writes    []BitOp `json:"writes"`
	Reads     []BitOp `json:"reads"` // re-partition; whatever is left is read as one array
	PostClose bool    `json:"post_close"`
	// SrcSizes: the byte source under the reader delivers pieces of these sizes (last repeats; empty = fills every
	// request): the values read and the bit counter must not depend on how the source chunks the bytes
	SrcSizes []int `json:"src_sizes,omitempty"`
}

func arrBytes(seed uint64, nbytes int) []byte {
	rg := &sm64{s: seed}
	b := make([]byte, nbytes)
	for i := 0; i < nbytes; i += 8 {
		v := rg.next()
		for j := 0; j < 8 && i+j < nbytes; j++ {
			b[i+j] = byte(v >> (8 * uint(j)))
		}
	}
	return b
}

func mustPanic(f func()) (panicked bool) {
	defer func() {
		if recover() != nil {
			panicked = true
		}
	}()
	f()
	return false
}

type c14Out struct {
	msg        string
	nontrivial bool
	flushes    int
	bits       int
}

func runC14(c C14Case) (o c14Out) {
	sink := &fio.Sink{}
	var model []byte // one bit per byte
	unalignedBig := false
	err := guard(func() error {
		obs, e := bitstream.NewDefaultOutputBitStream(sink, c.WBuf)
		if e != nil {
			return fmt.Errorf("ctor: %v", e)
		}
		for i, op := range c.Writes {
			switch op.K {
			case "bit":
				obs.WriteBit(int(op.V))
				model = append(model, byte(op.V&1))
			case "bits":
				if r := obs.WriteBits(op.V, uint(op.N)); r != uint(op.N) {
					return fmt.Errorf("op %d WriteBits(%d) returned %d", i, op.N, r)
				}
				for k := op.N - 1; k >= 0; k-- {
					model = append(model, byte((op.V>>uint(k))&1))
				}
			case "arr":
				arr := arrBytes(op.Seed, (op.N+7)/8+op.Slack)
				if len(model)&7 != 0 && op.N >= 64 {
					unalignedBig = true
				}
				if r := obs.WriteArray(arr, uint(op.N)); r != uint(op.N) {
					return fmt.Errorf("op %d WriteArray(%d bits) returned %d", i, op.N, r)
				}
				for k := 0; k < op.N; k++ {
					model = append(model, (arr[k>>3]>>(7-uint(k&7)))&1)
				}
			}
			if w := obs.Written(); w != uint64(len(model)) {
				return fmt.Errorf("after write op %d (%s %d): Written() = %d, sum of operation sizes = %d", i, op.K, op.N, w, len(model))
			}
		}
		if e := obs.Close(); e != nil {
			return fmt.Errorf("Close: %v", e)
		}
		if w := obs.Written(); w != uint64(len(model)) {
			return fmt.Errorf("after Close: Written() = %d, model has %d bits", w, len(model))
		}
		if c.PostClose {
			// every operation on the closed stream is refused, and a refused operation writes nothing:
			// the bit counter and the bytes at the sink stay where Close left them, however often the caller retries
			sinkLen := len(sink.Data)
			refused := func(name string, f func()) error {
				if !mustPanic(f) {
					return fmt.Errorf("%s on a closed stream was not refused", name)
				}
				if w := obs.Written(); w != uint64(len(model)) {
					return fmt.Errorf("after a refused %s on the closed stream Written() = %d, %d bits were written", name, w, len(model))
				}
				if len(sink.Data) != sinkLen {
					return fmt.Errorf("a refused %s on the closed stream sent bytes to the sink", name)
				}
				return nil
			}
			for round := 0; round < 2; round++ {
				order := [][3]int{{0, 1, 2}, {1, 0, 2}, {2, 1, 0}, {1, 2, 0}}[(len(model)+round)%4]
				for _, k := range order {
					var e error
					switch k {
					case 0:
						e = refused("WriteBit", func() { obs.WriteBit(1) })
					case 1:
						e = refused("WriteBits", func() { obs.WriteBits(5, uint(1+len(model)%64)) })
					case 2:
						e = refused("WriteArray", func() { obs.WriteArray([]byte{1, 2, 3, 4, 5, 6, 7, 8, 9}, uint(20+len(model)%50)) })
					}
					if e != nil {
						return e
					}
				}
			}
			if e := obs.Close(); e != nil {
				return fmt.Errorf("second Close: %v", e)
			}
			if w := obs.Written(); w != uint64(len(model)) {
				return fmt.Errorf("after the second Close Written() = %d, %d bits were written", w, len(model))
			}
		}
		return nil
	})
	if err != nil {
		o.msg = "writer: " + err.Error()
		return
	}
	o.bits = len(model)
	o.flushes = sink.Writes
	want := make([]byte, (len(model)+7)/8)
	for i, b := range model {
		want[i>>3] |= b << (7 - uint(i&7))
	}
	if !bytes.Equal(want, sink.Data) {
		o.msg = fmt.Sprintf("byte image differs from the big-endian packing of the written bits: %d bytes vs %d expected, first difference at byte %d", len(sink.Data), len(want), firstDiff(sink.Data, want))
		return
	}
	o.nontrivial = unalignedBig && sink.Writes >= 2
	err = guard(func() error {
		rsrc := fio.NewSource(sink.Data)
		rsrc.Sizes = c.SrcSizes
		ibs, e := bitstream.NewDefaultInputBitStream(rsrc, c.RBuf)
		if e != nil {
			return fmt.Errorf("ctor: %v", e)
		}
		pos := 0
		reads := append([]BitOp(nil), c.Reads...)
		reads = append(reads, BitOp{K: "arr", N: len(model)})
		for i, op := range reads {
			rem := len(model) - pos
			if rem == 0 {
				break
			}
			if more, e := ibs.HasMoreToRead(); e != nil || !more {
				return fmt.Errorf("HasMoreToRead() = %v,%v with %d bits left", more, e, rem)
			}
			n := min(op.N, rem)
			switch op.K {
			case "bit":
				if b := ibs.ReadBit(); byte(b) != model[pos] {
					return fmt.Errorf("read op %d: ReadBit at bit %d = %d, want %d", i, pos, b, model[pos])
				}
				pos++
			case "bits":
				if n == 0 {
					continue
				}
				v := ibs.ReadBits(uint(n))
				var w uint64
				for k := 0; k < n; k++ {
					w = w<<1 | uint64(model[pos+k])
				}
				if v != w {
					return fmt.Errorf("read op %d: ReadBits(%d) at bit %d = %#x, want %#x", i, n, pos, v, w)
				}
				pos += n
			case "arr":
				arr := make([]byte, (n+7)/8+op.Slack)
				if r := ibs.ReadArray(arr, uint(n)); r != uint(n) {
					return fmt.Errorf("read op %d: ReadArray(%d bits) returned %d", i, n, r)
				}
				for k := 0; k < n; k++ {
					if (arr[k>>3]>>(7-uint(k&7)))&1 != model[pos+k] {
						return fmt.Errorf("read op %d: ReadArray(%d bits) at bit %d: bit %d differs", i, n, pos, k)
					}
				}
				pos += n
			}
			if rd := ibs.Read(); rd != uint64(pos) {
				return fmt.Errorf("after read op %d (%s %d): Read() = %d, sum of operation sizes = %d", i, op.K, n, rd, pos)
			}
		}
		if e := ibs.Close(); e != nil {
			return fmt.Errorf("Close: %v", e)
		}
		if c.PostClose {
			if !mustPanic(func() { ibs.ReadBit() }) {
				return fmt.Errorf("ReadBit on a closed stream was not refused")
			}
			if !mustPanic(func() { ibs.ReadBits(9) }) {
				return fmt.Errorf("ReadBits on a closed stream was not refused")
			}
			if !mustPanic(func() { ibs.ReadArray(make([]byte, 4), 20) }) {
				return fmt.Errorf("ReadArray on a closed stream was not refused")
			}
			if e := ibs.Close(); e != nil {
				return fmt.Errorf("second Close: %v", e)
			}
		}
		return nil
	})
	if err != nil {
		o.msg = "reader: " + err.Error()
	}
	return
}

func drawBitOps(t *rapid.T, label string, bufBits int, maxOps int, writer bool) []BitOp {
	n := rapid.IntRange(1, maxOps).Draw(t, label+".n")
	ops := make([]BitOp, 0, n)
	for i := 0; i < n; i++ {
		var op BitOp
		switch rapid.IntRange(0, 5).Draw(t, label+".k") {
		case 0:
			op = BitOp{K: "bit", N: 1, V: uint64(rapid.IntRange(0, 3).Draw(t, label+".bit"))}
		case 1, 2:
			op = BitOp{K: "bits", N: rapid.IntRange(1, 64).Draw(t, label+".bits")}
			if writer {
				op.V = rapid.Uint64().Draw(t, label+".v")
			}
		default:
			var k int
			switch rapid.IntRange(0, 7).Draw(t, label+".arrcls") {
			case 0:
				k = rapid.IntRange(0, 7).Draw(t, label+".arr")
			case 1:
				k = 8 * rapid.IntRange(0, 300).Draw(t, label+".arr")
			case 2:
				k = rapid.IntRange(0, 700).Draw(t, label+".arr")
			case 3:
				k = rapid.IntRange(256, 4000).Draw(t, label+".arr")
			case 4:
				k = bufBits + rapid.IntRange(-600, 600).Draw(t, label+".arr")
			case 5:
				// land exactly around len(buffer)-8 / -32 bytes
				k = bufBits - 8*rapid.SampledFrom([]int{8, 9, 16, 31, 32, 33, 40}).Draw(t, label+".edge") + rapid.IntRange(-9, 9).Draw(t, label+".arr")
			default:
				k = rapid.IntRange(0, 3*bufBits).Draw(t, label+".arr")
			}
			op = BitOp{K: "arr", N: max(0, k), Slack: rapid.IntRange(0, 2).Draw(t, label+".slack")}
			if writer {
				op.Seed = rapid.Uint64Range(0, 1<<20).Draw(t, label+".seed")
			}
		}
		ops = append(ops, op)
	}
	return ops
}

func drawC14(t *rapid.T) C14Case {
	var c C14Case
	c.WBuf = uint(rapid.SampledFrom([]int{1024, 1032, 2048, 16384, 65536}).Draw(t, "wbuf"))
	c.RBuf = uint(rapid.SampledFrom([]int{1024, 1032, 4096, 16384, 65536}).Draw(t, "rbuf"))
	maxOps := 40
	if c.WBuf > 2048 {
		maxOps = 16
	}
	c.Writes = drawBitOps(t, "w", int(c.WBuf)*8, maxOps, true)
	c.Reads = drawBitOps(t, "r", int(c.RBuf)*8, maxOps, false)
	if rapid.IntRange(0, 2).Draw(t, "pieces") == 0 {
		c.SrcSizes = rapid.SliceOfN(rapid.SampledFrom([]int{1, 3, 5, 7, 10, 13, 100, 777, 1001, 1021, 4099}), 1, 4).Draw(t, "srcSizes")
	}
	c.PostClose = rapid.Bool().Draw(t, "postClose")
	return c
}

func c14Eval(r *vrt.Run, c C14Case) c14Out {
	o := runC14(c)
	fl := "flushes:0-1"
	if o.flushes >= 3 {
		fl = "flushes:3+"
	} else if o.flushes == 2 {
		fl = "flushes:2"
	}
	r.Eval(vrt.HashOf(c), o.nontrivial, fmt.Sprintf("wbuf:%d", c.WBuf), fl, fmt.Sprintf("postclose:%v", c.PostClose))
	if o.nontrivial && r.WantSample() {
		r.Sample(map[string]any{"wbuf": c.WBuf, "rbuf": c.RBuf, "write_ops": len(c.Writes), "read_ops": len(c.Reads), "bits": o.bits,
			"sink_writes": o.flushes, "first_writes": c.Writes[:min(5, len(c.Writes))], "first_reads": c.Reads[:min(5, len(c.Reads))]})
	}
	return o
}

func TestC14(t *testing.T) {
	r := start(t, "C14")
	for _, p := range r.ReplayFiles() {
		ff, err := vrt.LoadFail(p)
		if err != nil {
			t.Fatalf("unreadable replay file %s: %v", p, err)
		}
		var c C14Case
		if err := json.Unmarshal(ff.Case, &c); err != nil {
			t.Fatalf("bad case in %s: %v", p, err)
		}
		if o := c14Eval(r, c); o.msg != "" {
			r.RecordFailure("bitprogram", c, p, o.msg)
			t.Fatalf("replay %s: %s", p, o.msg)
		}
		r.Label("replayed")
	}
	if r.ReplayOnly() {
		return
	}
	r.Rapid(t, "programs", 16000, 500000, func(t *rapid.T) {
		c := drawC14(t)
		if o := c14Eval(r, c); o.msg != "" {
			r.Violation(t, "bitprogram", c, "%s", o.msg)
		}
	})
}
