package checks

import (
	"bytes"
	"encoding/binary"
	"encoding/json"
	"fmt"
	mbits "math/bits"
	"testing"

	kanzi "github.com/flanglet/kanzi-go/v2"
	"pgregory.net/rapid"

	"verif/harness/fio"
	"verif/harness/gen"
	"verif/harness/kfmt"
	"verif/harness/vrt"
)

// Mutation damages the payload of one block. Positions are per-mille of the payload.
type Mutation struct {
	Kind  string `json:"kind"`           // flip, subst, swap, zero, copy; hashfill: every byte of the stored hash field of the block := byte(Val)
	Body  bool   `json:"body,omitempty"` // positions are relative to the whole block body (mode byte, pre-entropy length, stored hash, coded data) instead of the coded data only
	Block int    `json:"block"`
	Off   int    `json:"off"`  // 0..999
	Off2  int    `json:"off2"` // second position (swap, copy)
	Len   int    `json:"len"`  // bits
	Val   uint64 `json:"val"`
}

// C02Case: a checksummed stream, a fault sequence, a reader.
type C02Case struct {
	Cfg      gen.Config `json:"cfg"`
	Data     gen.Recipe `json:"data"`
	Muts     []Mutation `json:"muts,omitempty"`
	Splice   int        `json:"splice,omitempty"` // >0: block index (1-based) replaced by the same block of a second stream, keeping the original hash
	Seed2    uint64     `json:"seed2,omitempty"`
	BitFlip  int        `json:"bit_flip,omitempty"` // >0: flip exactly this payload bit ordinal (exhaustive sweep), 1-based
	// Compensate (NONE/NONE streams, where the coded data are the block bytes): the first word of the first block is
	// XORed with Compensate and the word in the same hash lane of the next stripe is recomputed so that the lane
	// state - hence the block hash - is unchanged (XXHash is not collision resistant: known finding KF-42)
	Compensate uint32 `json:"compensate,omitempty"`
	ReadJobs uint       `json:"read_jobs"`
	ReadBufs []int      `json:"read_bufs,omitempty"`
}

type c02Out struct {
	known      string
	msg        string
	nontrivial bool
	outcome    string
	changed    bool
}

// applyMutation returns whether any bit changed.
func applyMutation(b *kfmt.Bits, st *kfmt.Stream, m Mutation) bool {
	if len(st.Blocks) == 0 {
		return false
	}
	k := st.Blocks[((m.Block%len(st.Blocks))+len(st.Blocks))%len(st.Blocks)]
	lo, hi := k.PayloadStart, k.End
	if m.Body {
		lo = k.LenPrefixEnd
	}
	n := hi - lo
	if n <= 0 {
		return false
	}
	if m.Kind == "hashfill" {
		changed := false
		for p := k.HashStart; p < k.HashEnd; p++ {
			bit := uint64(byte(m.Val)>>(7-uint(p-k.HashStart)%8)) & 1
			if b.Get(p) != bit {
				b.Set(p, bit)
				changed = true
			}
		}
		return changed
	}
	pos := lo + (m.Off%1000)*n/1000
	pos2 := lo + (m.Off2%1000)*n/1000
	l := max(1, min(m.Len, hi-pos))
	before := append([]byte(nil), b.B...)
	switch m.Kind {
	case "flip":
		for i := 0; i < l && i < 8; i++ {
			if m.Val>>uint(i)&1 == 1 || i == 0 {
				b.Flip(pos + i)
			}
		}
	case "subst":
		w := min(8, hi-pos)
		b.Put(pos, w, m.Val)
	case "swap":
		w := min(l, min(64, min(hi-pos, hi-pos2)))
		if w > 0 && (pos+w <= pos2 || pos2+w <= pos) {
			v1, _ := b.Read(pos, w)
			v2, _ := b.Read(pos2, w)
			b.Put(pos, w, v2)
			b.Put(pos2, w, v1)
		}
	case "zero":
		for i := 0; i < l; i++ {
			b.Set(pos+i, 0)
		}
	case "copy":
		w := min(l, min(hi-pos, hi-pos2))
		for i := 0; i < w; i++ {
			b.Set(pos+i, b.Get(pos2+i))
		}
	}
	return !bytes.Equal(before, b.B)
}

// xxhCompensate rewrites raw (the bytes of a block as hashed) in place: word 0 ^= x, and the word of the same lane
// in the next stripe is chosen so that the lane accumulator after both stripes is what it was. Restated from the
// published XXH32/XXH64 round function (acc = rotl(acc + w*P2, r) * P1, first lane seeded with seed+P1+P2); the
// stream layer seeds its hashers with the bitstream magic.
func xxhCompensate(raw []byte, width uint, x uint32) bool {
	const seed = uint64(0x4B414E5A)
	if width == 32 {
		if len(raw) < 32 {
			return false
		}
		p1, p2 := uint32(2654435761), uint32(2246822519)
		v1 := uint32(seed) + p1 + p2
		round := func(acc, val uint32) uint32 { return mbits.RotateLeft32(acc+val*p2, 13) * p1 }
		inv := p2
		for i := 0; i < 5; i++ {
			inv *= 2 - p2*inv
		}
		w0 := binary.LittleEndian.Uint32(raw[0:])
		w1 := binary.LittleEndian.Uint32(raw[16:])
		w0x := w0 ^ x
		a, ax := round(v1, w0), round(v1, w0x)
		binary.LittleEndian.PutUint32(raw[0:], w0x)
		binary.LittleEndian.PutUint32(raw[16:], w1+(a-ax)*inv)
		return true
	}
	if len(raw) < 64 {
		return false
	}
	p1, p2 := uint64(0x9E3779B185EBCA87), uint64(0xC2B2AE3D27D4EB4F)
	v1 := seed + p1 + p2
	round := func(acc, val uint64) uint64 { return mbits.RotateLeft64(acc+val*p2, 31) * p1 }
	inv := p2
	for i := 0; i < 6; i++ {
		inv *= 2 - p2*inv
	}
	w0 := binary.LittleEndian.Uint64(raw[0:])
	w1 := binary.LittleEndian.Uint64(raw[32:])
	w0x := w0 ^ uint64(x)
	a, ax := round(v1, w0), round(v1, w0x)
	binary.LittleEndian.PutUint64(raw[0:], w0x)
	binary.LittleEndian.PutUint64(raw[32:], w1+(a-ax)*inv)
	return true
}

// c02Pre caches the undamaged stream of a sweep.
type c02Pre struct {
	data, stream []byte
	st           *kfmt.Stream
}

func runC02(r *vrt.Run, c C02Case, pre *c02Pre) (o c02Out) {
	r.Inflight("corruption", c)
	defer r.InflightDone()
	var data, stream []byte
	var st *kfmt.Stream
	var err error
	if pre != nil {
		data, stream, st = pre.data, pre.stream, pre.st
	} else {
		data = markedData(c.Data, c.Cfg.BlockSize)
		stream, err = Compress(data, c.Cfg, nil)
		if err != nil {
			o.outcome = "skipped:compress-failed"
			return
		}
		st, err = parseStream(stream, c.Cfg)
		if err != nil || len(st.Blocks) == 0 {
			o.outcome = "skipped:no-blocks"
			return
		}
	}
	bits := kfmt.FromBytes(stream)
	damaged := map[int]bool{}
	mustFail := false
	switch {
	case c.Splice > 0:
		// same configuration and block lengths, different content; keep A's stored hash
		rc2 := c.Data
		rc2.Seed = c.Seed2
		if rc2.Raw != nil {
			rc2.Raw = append([]byte(nil), rc2.Raw...)
			for i := range rc2.Raw {
				rc2.Raw[i] ^= byte(c.Seed2) | 1
			}
		}
		data2 := markedData(rc2, c.Cfg.BlockSize)
		k := (c.Splice - 1) % len(st.Blocks)
		bs := int(c.Cfg.BlockSize)
		lo, hi := k*bs, min(len(data), (k+1)*bs)
		if len(data2) != len(data) || bytes.Equal(data2[lo:hi], data[lo:hi]) {
			o.outcome = "skipped:splice-same-content"
			return
		}
		stream2, err := Compress(data2, c.Cfg, nil)
		if err != nil {
			o.outcome = "skipped:compress-failed"
			return
		}
		st2, err := parseStream(stream2, c.Cfg)
		if err != nil || len(st2.Blocks) != len(st.Blocks) {
			o.outcome = "skipped:splice-shape"
			return
		}
		a, b2 := st.Blocks[k], st2.Blocks[k]
		src2 := kfmt.FromBytes(stream2)
		nb := &kfmt.Bits{}
		nb.AppendRange(bits, 0, a.Start)
		nb.AppendRange(src2, b2.Start, b2.HashStart)
		nb.AppendRange(bits, a.HashStart, a.HashEnd)
		nb.AppendRange(src2, b2.HashEnd, b2.End)
		nb.AppendRange(bits, a.End, bits.N)
		bits = nb
		damaged[k+1] = true
		o.changed = true
		mustFail = true
	case c.Compensate != 0:
		k := st.Blocks[0]
		n := (k.End - k.PayloadStart) / 8
		raw := make([]byte, n)
		for i := range raw {
			v, _ := bits.Read(k.PayloadStart+8*i, 8)
			raw[i] = byte(v)
		}
		if !xxhCompensate(raw, c.Cfg.Checksum, c.Compensate) {
			o.outcome = "skipped:block-too-short-for-a-compensated-substitution"
			return
		}
		for i, v := range raw {
			bits.Put(k.PayloadStart+8*i, 8, uint64(v))
		}
		damaged[1] = true
		o.changed = true
	case c.BitFlip > 0:
		ord := c.BitFlip - 1
		for i, k := range st.Blocks {
			n := k.End - k.PayloadStart
			if ord < n {
				bits.Flip(k.PayloadStart + ord)
				damaged[i+1] = true
				o.changed = true
				break
			}
			ord -= n
		}
	default:
		for _, m := range c.Muts {
			if applyMutation(bits, st, m) {
				o.changed = true
			}
			damaged[((m.Block%len(st.Blocks))+len(st.Blocks))%len(st.Blocks)+1] = true
		}
	}
	mutated := bits.Bytes()
	if len(mutated) < len(stream) {
		mutated = append(mutated, stream[len(mutated):]...)
	}
	if bytes.Equal(mutated, stream) {
		o.changed = false
	}
	ev := newEvRec()
	var extra map[string]any
	if pre != nil {
		extra = map[string]any{"verif.smallbuf": true}
	}
	rd, err := openReader(fio.NewSource(mutated), c.Cfg, c.ReadJobs, extra, ev)
	if err != nil {
		o.msg = "reader construction failed: " + err.Error()
		return
	}
	tr := ReadOn(rd, c.ReadBufs, 8, 100000)
	guard(func() error { rd.Close(); return nil })
	reached := false
	for id := range damaged {
		if ev.saw(kanzi.EVT_BEFORE_ENTROPY, id) {
			reached = true
		}
	}
	o.nontrivial = o.changed && reached
	if tr.Panic != "" {
		o.msg = "Read faulted: " + tr.Panic
		return
	}
	if !isPrefix(tr.Acc, data) && c.Compensate != 0 && tr.FirstErr == nil {
		o.known = "KF-42"
		o.msg = fmt.Sprintf("a substitution of two words computed to leave the XXHash%d lane state unchanged is returned as a success with different bytes (first difference at %d)", c.Cfg.Checksum, firstDiff(tr.Acc, data))
		return
	}
	if !isPrefix(tr.Acc, data) {
		d := firstDiff(tr.Acc, data)
		when := "before any error was reported"
		if tr.FirstErr != nil && d >= tr.AccAtErr {
			when = fmt.Sprintf("by a Read call made AFTER the error %q had been reported", tr.FirstErr)
		} else if tr.FirstErr != nil {
			when = fmt.Sprintf("before/with the error %q", tr.FirstErr)
		}
		o.msg = fmt.Sprintf("damaged checksummed stream returned bytes that differ from the original at offset %d (%d bytes returned in total), %s; calls: %s", d, len(tr.Acc), when, jsonOf(tr.Calls))
		return
	}
	if tr.FirstErr == nil {
		if !tr.SawEOF {
			o.msg = "reader neither failed nor reached end of stream"
			return
		}
		if !bytes.Equal(tr.Acc, data) {
			o.msg = fmt.Sprintf("damaged stream reported clean end of stream after %d of %d bytes", len(tr.Acc), len(data))
			return
		}
		if mustFail {
			o.msg = fmt.Sprintf("block %d decodes to content that differs from what was hashed at compression time, yet no error was reported", c.Splice)
			return
		}
		o.outcome = "outcome:identical-output"
		return
	}
	switch {
	case bytes.Contains([]byte(tr.FirstErr.Error()), []byte("checksum")):
		o.outcome = "outcome:crc-error"
	default:
		o.outcome = "outcome:codec-error"
	}
	return
}

func c02Eval(r *vrt.Run, c C02Case, pre *c02Pre) c02Out {
	o := runC02(r, c, pre)
	kind := "mutations"
	if c.Compensate != 0 {
		kind = "hash-compensated-substitution"
	} else if c.Splice > 0 {
		kind = "splice"
	} else if c.BitFlip > 0 {
		kind = "single-bit-sweep"
	}
	labels := []string{"kind:" + kind, o.outcome, "entropy:" + c.Cfg.Entropy, fmt.Sprintf("ck:%d", c.Cfg.Checksum), "rjobs:" + jobsClass(c.ReadJobs)}
	for _, m := range c.Muts {
		labels = append(labels, "mut:"+m.Kind)
		if m.Body {
			labels = append(labels, "mut:anywhere-in-block-body")
		}
	}
	r.Eval(vrt.HashOf(c), o.nontrivial, labels...)
	if o.nontrivial && r.WantSample() {
		r.Sample(map[string]any{"cfg": c.Cfg.String(), "data": c.Data.String(), "muts": c.Muts, "splice_block": c.Splice, "read_jobs": c.ReadJobs,
			"read_bufs": clipInts(c.ReadBufs, 6), "outcome": o.outcome})
	}
	return o
}

func drawC02(t *rapid.T, maxBlock int) C02Case {
	var c C02Case
	c.Cfg = gen.DrawConfig(t, gen.ConfigOpts{MaxBlock: maxBlock, MaxJobs: 2, Checksums: []uint{32, 64}, MaxChain: 4}) // the writer is not the subject here
	bs := int(c.Cfg.BlockSize)
	nb := rapid.IntRange(1, 7).Draw(t, "nblocks")
	ln := nb*bs - rapid.IntRange(0, bs-1).Draw(t, "short")
	if c.Cfg.Entropy == "TPAQ" || c.Cfg.Entropy == "TPAQX" || c.Cfg.Entropy == "CM" {
		ln = min(ln, 48*1024, 2*bs+bs/2)
	}
	c.Data = gen.DrawRecipe(t, 1, "data")
	c.Data.Len = max(1, ln)
	c.Cfg.Hint, c.Cfg.HintClass = 0, "absent"
	if rapid.Bool().Draw(t, "hint") {
		c.Cfg.Hint, c.Cfg.HintClass = int64(c.Data.Len), "exact"
	}
	if rapid.IntRange(0, 5).Draw(t, "splice") == 0 {
		c.Splice = rapid.IntRange(1, nb).Draw(t, "spliceBlock")
		c.Seed2 = rapid.Uint64Range(1, 1<<30).Draw(t, "seed2")
	} else {
		n := rapid.IntRange(1, 4).Draw(t, "nmuts")
		for i := 0; i < n; i++ {
			c.Muts = append(c.Muts, Mutation{Kind: rapid.SampledFrom([]string{"flip", "flip", "subst", "swap", "zero", "copy"}).Draw(t, "mkind"),
				Block: rapid.IntRange(0, nb-1).Draw(t, "mblock"), Off: rapid.IntRange(0, 999).Draw(t, "moff"), Off2: rapid.IntRange(0, 999).Draw(t, "moff2"),
				Len: rapid.IntRange(1, 200).Draw(t, "mlen"), Val: rapid.Uint64().Draw(t, "mval")})
		}
		switch rapid.IntRange(0, 9).Draw(t, "hdrpart") {
		case 0:
			// the stored hash of an already damaged block is replaced by a constant fill (a reader that
			// takes some value of the field for "no checksum" would accept the damaged block)
			c.Muts = append(c.Muts, Mutation{Kind: "hashfill", Block: c.Muts[0].Block,
				Val: uint64(rapid.SampledFrom([]int{0, 0, 0xFF, 1, 0x80, 0x55}).Draw(t, "fill"))})
		case 1, 2:
			// one mutation anywhere in the block body: mode byte, skip flags, pre-entropy length, stored hash, coded data
			c.Muts[len(c.Muts)-1].Body = true
			c.Muts[len(c.Muts)-1].Off = rapid.OneOf(rapid.IntRange(0, 30), rapid.IntRange(0, 999)).Draw(t, "boff")
		}
	}
	c.ReadJobs = gen.DrawJobs(t, 8, "readJobs")
	if rapid.Bool().Draw(t, "rbufs") {
		c.ReadBufs = rapid.SliceOfN(rapid.OneOf(rapid.IntRange(1, 9), rapid.IntRange(bs-1, bs+1), rapid.IntRange(1, 3*bs)), 1, 6).Draw(t, "readBufs")
	}
	return c
}

func TestC02(t *testing.T) {
	r := start(t, "C02")
	for _, p := range r.ReplayFiles() {
		ff, err := vrt.LoadFail(p)
		if err != nil {
			t.Fatalf("unreadable replay file %s: %v", p, err)
		}
		var c C02Case
		if err := json.Unmarshal(ff.Case, &c); err != nil {
			t.Fatalf("bad case in %s: %v", p, err)
		}
		if o := c02Eval(r, c, nil); o.msg != "" {
			if o.known != "" && r.KnownOpen(o.known) {
				r.KnownLine(o.known + " " + firstLine(o.msg))
				continue
			}
			r.RecordFailure("corruption", c, p, o.msg)
			t.Fatalf("replay %s: %s", p, o.msg)
		}
		r.Label("replayed")
	}
	if r.ReplayOnly() {
		return
	}
	r.Rapid(t, "mutations", 12000, 400000, func(t *rapid.T) {
		c := drawC02(t, 16384)
		if o := c02Eval(r, c, nil); o.msg != "" {
			r.Violation(t, "corruption", c, "%s", o.msg)
		}
	})
	// substitutions computed against the hash: NONE/NONE streams (the coded data are the hashed bytes), both widths
	r.Rapid(t, "hash-compensated-substitutions", 64, 2000, func(t *rapid.T) {
		c := C02Case{Cfg: gen.Config{Transform: "NONE", Entropy: "NONE", BlockSize: gen.DrawBlockSize(t, 8192, "bs"), Jobs: 1,
			Checksum: rapid.SampledFrom([]uint{32, 64}).Draw(t, "ck"), HintClass: "absent"}, ReadJobs: gen.DrawJobs(t, 4, "rj"),
			Compensate: rapid.Uint32Range(1, 1<<32-1).Draw(t, "xor")}
		c.Data = gen.DrawRecipe(t, 3*int(c.Cfg.BlockSize), "data")
		c.Data.Len = max(c.Data.Len, 64)
		if o := c02Eval(r, c, nil); o.msg != "" {
			if o.known != "" && r.KnownOpen(o.known) {
				r.Excluded(o.known)
				return
			}
			r.Violation(t, "corruption", c, "%s", o.msg)
		}
	})
	// exhaustive single-bit flips over every payload bit of small streams
	nstreams := r.Pick(4, 50)
	idx := 0
	for s := 0; s < nstreams; s++ {
		cfg := gen.Config{Transform: []string{"NONE", "LZ", "RLT", "BWT", "TEXT", "ROLZ", "ZRLT+SRT"}[s%7], Entropy: []string{"NONE", "HUFFMAN", "ANS0", "RANGE", "FPAQ", "ANS1"}[s%6],
			BlockSize: 1024, Jobs: 1, Checksum: []uint{32, 64}[s%2], HintClass: "absent"}
		rc := gen.Recipe{Kind: []int{gen.KText, gen.KRuns, gen.KRandom, gen.KDNA}[s%4], Len: 1024 + 300 + 13*s, Seed: uint64(s + 1)}
		data := markedData(rc, 1024)
		stream, err := Compress(data, cfg, nil)
		if err != nil {
			continue
		}
		st, err := parseStream(stream, cfg)
		if err != nil {
			continue
		}
		total := 0
		for _, k := range st.Blocks {
			total += k.End - k.PayloadStart
		}
		for bit := 1; bit <= total; bit++ {
			idx++
			if !r.Mine(idx) {
				continue
			}
			c := C02Case{Cfg: cfg, Data: rc, BitFlip: bit, ReadJobs: uint(1 + bit%3)}
			if o := c02Eval(r, c, &c02Pre{data: data, stream: stream, st: st}); o.msg != "" {
				if r.Survey() {
					r.Violation(t, "corruption", c, "%s", o.msg)
					continue
				}
				r.RecordFailure("corruption", c, "", o.msg)
				t.Fatalf("single-bit sweep: %s on %s", o.msg, jsonOf(c))
			}
		}
	}
	r.SetExhaustive(fmt.Sprintf("every single payload-bit flip of %d small two-block streams", nstreams), true)
}
