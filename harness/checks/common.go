// Package checks holds one test per property (TestCnn), driven by vcheck.
package checks

import (
	"bytes"
	"encoding/json"
	"errors"
	"fmt"
	"io"
	"runtime/debug"
	"strings"
	"testing"

	kio "github.com/flanglet/kanzi-go/v2/io"

	"verif/harness/fio"
	"verif/harness/gen"
	"verif/harness/vrt"
)

// start creates the run for a property and arranges the evidence flush.
func start(t *testing.T, id string) *vrt.Run {
	r := vrt.New(id)
	t.Cleanup(r.Flush)
	return r
}

// guard runs f and converts a panic into an error carrying the stack.
func guard(f func() error) (err error) {
	defer func() {
		if p := recover(); p != nil {
			err = &PanicError{Val: fmt.Sprint(p), Stack: string(debug.Stack())}
		}
	}()
	return f()
}

// PanicError marks a panic that escaped a library call.
type PanicError struct {
	Val   string
	Stack string
}

func (p *PanicError) Error() string { return "PANIC escaped: " + p.Val + "\n" + trimStack(p.Stack) }

func trimStack(s string) string {
	lines := strings.Split(s, "\n")
	var keep []string
	for _, l := range lines {
		if strings.Contains(l, "kanzi-go") || strings.Contains(l, "/repo/v2") {
			keep = append(keep, strings.TrimSpace(l))
			if len(keep) > 12 {
				break
			}
		}
	}
	return strings.Join(keep, "\n")
}

func isPanic(err error) bool {
	var p *PanicError
	return errors.As(err, &p)
}

// Compress writes data through a Writer built from cfg, splitting it into
// Write calls of the given sizes (last one repeats; empty = one call).
func Compress(data []byte, cfg gen.Config, writeSizes []int) (stream []byte, err error) {
	sink := &fio.Sink{}
	err = guard(func() error {
		w, e := kio.NewWriter(sink, cfg.Transform, cfg.Entropy, cfg.BlockSize, cfg.Jobs, cfg.Checksum, cfg.Hint, cfg.Headerless)
		if e != nil {
			return fmt.Errorf("ctor: %w", e)
		}
		if e := WriteAll(w, data, writeSizes); e != nil {
			return e
		}
		if e := w.Close(); e != nil {
			return fmt.Errorf("close: %w", e)
		}
		return nil
	})
	return sink.Data, err
}

// WriteAll feeds data to w: one call per entry of writeSizes (zero lengths
// allowed, clipped to what is left), then the remainder in one call.
func WriteAll(w io.Writer, data []byte, writeSizes []int) error {
	put := func(p []byte) error {
		n, e := w.Write(p)
		if e != nil {
			return fmt.Errorf("write: %w", e)
		}
		if n != len(p) {
			return fmt.Errorf("write: short count %d/%d without error", n, len(p))
		}
		return nil
	}
	off := 0
	for _, k := range writeSizes {
		k = max(0, min(k, len(data)-off))
		if e := put(data[off : off+k]); e != nil {
			return e
		}
		off += k
	}
	if off < len(data) {
		return put(data[off:])
	}
	return nil
}

// NewReaderFor builds the matching reader for a stream written with cfg.
func NewReaderFor(src io.ReadCloser, cfg gen.Config, jobs uint) (*kio.Reader, error) {
	if cfg.Headerless {
		return kio.NewHeaderlessReader(src, jobs, cfg.Transform, cfg.Entropy, cfg.BlockSize, cfg.Checksum, cfg.Hint, 6)
	}
	return kio.NewReader(src, jobs)
}

// Drain reads r to the end with buffers of the given sizes (last repeats).
// It returns everything delivered, and the first non-EOF error (nil at clean EOF).
func Drain(r io.Reader, bufSizes []int) (out []byte, err error) {
	var o bytes.Buffer
	err = guard(func() error {
		if len(bufSizes) == 0 {
			bufSizes = []int{65536}
		}
		zero := 0
		for i := 0; ; i++ {
			k := bufSizes[min(i, len(bufSizes)-1)]
			if k < 0 {
				k = 0
			}
			if i >= len(bufSizes) && k == 0 {
				k = 4096
			}
			buf := make([]byte, k)
			n, e := r.Read(buf)
			if n < 0 || n > k {
				return fmt.Errorf("Read returned n=%d for a buffer of %d", n, k)
			}
			o.Write(buf[:n])
			if e == io.EOF {
				return nil
			}
			if e != nil {
				return e
			}
			if n == 0 && k > 0 {
				zero++
				if zero > 1000 {
					return errors.New("Read keeps returning (0, nil)")
				}
			}
		}
	})
	return o.Bytes(), err
}

// Decompress decodes a stream written with cfg.
func Decompress(stream []byte, cfg gen.Config, jobs uint, bufSizes []int) ([]byte, error) {
	var out []byte
	err := guard(func() error {
		r, e := NewReaderFor(fio.NewSource(stream), cfg, jobs)
		if e != nil {
			return fmt.Errorf("reader ctor: %w", e)
		}
		defer r.Close()
		var e2 error
		out, e2 = Drain(r, bufSizes)
		return e2
	})
	return out, err
}

// firstDiff returns the first index at which a and b differ (or -1).
func firstDiff(a, b []byte) int {
	n := min(len(a), len(b))
	for i := 0; i < n; i++ {
		if a[i] != b[i] {
			return i
		}
	}
	if len(a) != len(b) {
		return n
	}
	return -1
}

func jsonOf(v any) string {
	b, _ := json.Marshal(v)
	if len(b) > 600 {
		return string(b[:600]) + "..."
	}
	return string(b)
}

func sizeClass(n int) string {
	switch {
	case n == 0:
		return "0"
	case n <= 15:
		return "1-15"
	case n <= 64:
		return "16-64"
	case n < 1024:
		return "65-1023"
	case n < 65536:
		return "1K-64K"
	case n < 1<<20:
		return "64K-1M"
	case n < 4<<20:
		return "1M-4M"
	default:
		return ">=4M"
	}
}
