// Package vrt is the runtime shared by every property check: environment
// (tier, seed, shard), evidence recording, replay files, known-finding
// handling and the rapid driver glue.
package vrt

import (
	"encoding/binary"
	"encoding/json"
	"flag"
	"fmt"
	"hash/fnv"
	"os"
	"path/filepath"
	"runtime"
	"sort"
	"strconv"
	"strings"
	"sync"
	"testing"
	"time"

	"pgregory.net/rapid"
)

const maxHashes = 250000
const maxSamples = 12

// Run holds the state of one shard of one check.
type Run struct {
	ID       string
	Tier     string
	Seed     uint64
	Shard    int
	NShards  int
	Out      string // directory for fragments and fail files
	Root     string // /verif
	ReplayAt string // single replay path (vcheck replay)
	known    map[string]bool

	mu          sync.Mutex
	start       time.Time
	evals       int64
	shrinkEvals int64
	failing     bool
	hashes      map[uint64]struct{}
	saturated   bool
	nontrivial  int64
	labels      map[string]int64
	samples     []any
	sampleSeen  int64
	excluded    map[string]int64
	knownLines  []string
	notes       []string
	violations  []string
	exhaustive  map[string]bool
	phase       int
	states      map[uint64]struct{} // model_checking level: distinct protocol states visited
	counters    map[string]int64    // extra measured counts merged by summation (e.g. transitions)

	wdMu      sync.Mutex
	wdSince   time.Time
	wdActive  bool
	wdStarted bool
}

func envInt(name string, def int64) int64 {
	if v := os.Getenv(name); v != "" {
		if n, err := strconv.ParseInt(v, 10, 64); err == nil {
			return n
		}
	}
	return def
}

// New reads the environment prepared by vcheck.
func New(id string) *Run {
	r := &Run{ID: id, start: time.Now()}
	r.Tier = os.Getenv("VERIF_TIER")
	if r.Tier != "thorough" {
		r.Tier = "quick"
	}
	s := envInt("VERIF_SEED", 1)
	if s <= 0 {
		s = 1 - s // 0 -> 1, negatives folded
	}
	r.Seed = uint64(s)
	r.NShards = 1
	if sh := os.Getenv("VERIF_SHARD"); sh != "" {
		var i, n int
		if _, err := fmt.Sscanf(sh, "%d/%d", &i, &n); err == nil && n > 0 && i >= 0 && i < n {
			r.Shard, r.NShards = i, n
		}
	}
	r.Root = os.Getenv("VERIF_ROOT")
	if r.Root == "" {
		r.Root = "/verif"
	}
	r.Out = os.Getenv("VERIF_OUT")
	if r.Out == "" {
		r.Out = filepath.Join(os.TempDir(), "verif-out-"+id)
	}
	os.MkdirAll(r.Out, 0o755)
	r.ReplayAt = os.Getenv("VERIF_REPLAY")
	r.known = map[string]bool{}
	for _, k := range strings.Split(os.Getenv("VERIF_KNOWN"), ",") {
		if k = strings.TrimSpace(k); k != "" {
			r.known[k] = true
		}
	}
	r.hashes = map[uint64]struct{}{}
	r.labels = map[string]int64{}
	r.excluded = map[string]int64{}
	r.exhaustive = map[string]bool{}
	r.states = map[uint64]struct{}{}
	r.counters = map[string]int64{}
	return r
}

// Thorough reports whether the thorough tier was requested.
func (r *Run) Thorough() bool { return r.Tier == "thorough" }

// Pick returns q in the quick tier and t in the thorough tier.
func (r *Run) Pick(q, t int) int {
	if r.Thorough() {
		return t
	}
	return q
}

// KnownOpen tells whether finding slug is listed as an open known finding.
func (r *Run) KnownOpen(slug string) bool { return r.known[slug] }

// Mine tells whether element idx of a deterministic enumeration belongs to this shard.
func (r *Run) Mine(idx int) bool { return idx%r.NShards == r.Shard }

// HashOf returns a stable hash of any JSON-serialisable value.
func HashOf(v any) uint64 {
	h := fnv.New64a()
	switch x := v.(type) {
	case []byte:
		h.Write(x)
	case string:
		h.Write([]byte(x))
	default:
		b, _ := json.Marshal(v)
		h.Write(b)
	}
	return h.Sum64()
}

// Eval records one executed case.
func (r *Run) Eval(hash uint64, nontrivial bool, labels ...string) {
	r.mu.Lock()
	defer r.mu.Unlock()
	if r.failing {
		r.shrinkEvals++
		return
	}
	r.evals++
	for _, l := range labels {
		if l != "" {
			r.labels[l]++
		}
	}
	if nontrivial {
		r.nontrivial++
		if _, ok := r.hashes[hash]; !ok {
			if len(r.hashes) < maxHashes {
				r.hashes[hash] = struct{}{}
			} else {
				r.saturated = true
			}
		}
	}
}

// Label bumps label counters without counting an evaluation.
func (r *Run) Label(labels ...string) {
	r.mu.Lock()
	defer r.mu.Unlock()
	if r.failing {
		return
	}
	for _, l := range labels {
		if l != "" {
			r.labels[l]++
		}
	}
}

// WantSample advances the sampling clock and tells whether the caller should
// render the current case and hand it to Sample.
func (r *Run) WantSample() bool {
	r.mu.Lock()
	defer r.mu.Unlock()
	if r.failing {
		return false
	}
	r.sampleSeen++
	n := r.sampleSeen
	return len(r.samples) < maxSamples || n&(n-1) == 0
}

// Sample stores a rendered case for the evidence file (call after WantSample).
func (r *Run) Sample(v any) {
	r.mu.Lock()
	defer r.mu.Unlock()
	if r.failing {
		return
	}
	if len(r.samples) < maxSamples {
		r.samples = append(r.samples, v)
		return
	}
	r.samples[int(r.sampleSeen)%maxSamples] = v
}

// Excluded counts a failing case attributed to an open known finding.
func (r *Run) Excluded(slug string) {
	r.mu.Lock()
	defer r.mu.Unlock()
	r.excluded[slug]++
}

// Note adds a free-text note to the evidence.
func (r *Run) Note(format string, a ...any) {
	r.mu.Lock()
	defer r.mu.Unlock()
	if len(r.notes) < 50 {
		r.notes = append(r.notes, fmt.Sprintf(format, a...))
	}
}

// State records a visited state (by hash) of the system under a controlled schedule.
func (r *Run) State(h uint64) {
	r.mu.Lock()
	if !r.failing && len(r.states) < 4*maxHashes {
		r.states[h] = struct{}{}
	}
	r.mu.Unlock()
}

// Count adds n to a named counter of the evidence (summed over shards).
func (r *Run) Count(name string, n int64) {
	r.mu.Lock()
	if !r.failing {
		r.counters[name] += n
	}
	r.mu.Unlock()
}

// SetExhaustive records that a named enumeration was completed.
func (r *Run) SetExhaustive(name string, ok bool) {
	r.mu.Lock()
	defer r.mu.Unlock()
	r.exhaustive[name] = ok
}

// KnownLine emits a KNOWN-FINDING line (forwarded by vcheck).
func (r *Run) KnownLine(what string) {
	line := fmt.Sprintf("KNOWN-FINDING: property=%s %s", r.ID, what)
	r.mu.Lock()
	r.knownLines = append(r.knownLines, line)
	r.mu.Unlock()
	fmt.Println(line)
}

func (r *Run) failPath() string {
	return filepath.Join(r.Out, fmt.Sprintf("fail_%d.json", r.Shard))
}

// FailFile is the envelope written for every violation.
type FailFile struct {
	Property string          `json:"property"`
	Kind     string          `json:"kind"`
	Message  string          `json:"message"`
	Case     json.RawMessage `json:"case"`
	Source   string          `json:"source,omitempty"` // existing replay path, if the failure came from one
}

// RecordFailure writes/overwrites this shard's fail file.
func (r *Run) RecordFailure(kind string, c any, source string, msg string) {
	raw, err := json.Marshal(c)
	if err != nil {
		raw, _ = json.Marshal(fmt.Sprintf("%+v", c))
	}
	ff := FailFile{Property: r.ID, Kind: kind, Message: msg, Case: raw, Source: source}
	b, _ := json.MarshalIndent(ff, "", " ")
	// atomically: vcheck stops the other shards as soon as one fail file exists, a shard may be killed mid-write
	tmp := r.failPath() + ".tmp"
	if os.WriteFile(tmp, b, 0o644) == nil {
		os.Rename(tmp, r.failPath())
	}
	r.mu.Lock()
	r.failing = true
	if len(r.violations) < 5 {
		r.violations = append(r.violations, kind+": "+msg)
	}
	r.mu.Unlock()
}

// Inflight records the case about to be executed, so that a process death
// or a hang can be attributed to it by vcheck. Cheap enough for stream-level
// cases only. It also arms the per-case watchdog.
func (r *Run) Inflight(kind string, c any) {
	raw, _ := json.Marshal(c)
	ff := FailFile{Property: r.ID, Kind: kind, Message: "process died while executing this case", Case: raw}
	b, _ := json.Marshal(ff)
	os.WriteFile(filepath.Join(r.Out, fmt.Sprintf("inflight_%d.json", r.Shard)), b, 0o644)
	r.wdMu.Lock()
	r.wdSince = time.Now()
	r.wdActive = true
	if !r.wdStarted {
		r.wdStarted = true
		go r.watchdog()
	}
	r.wdMu.Unlock()
}

// Tick restarts the watchdog timer: a sweep of many sub-cases under one
// in-flight marker calls it before each sub-case.
func (r *Run) Tick() {
	r.wdMu.Lock()
	r.wdSince = time.Now()
	r.wdMu.Unlock()
}

// InflightDone removes the in-flight marker and disarms the watchdog.
func (r *Run) InflightDone() {
	r.wdMu.Lock()
	r.wdActive = false
	r.wdMu.Unlock()
	os.Remove(filepath.Join(r.Out, fmt.Sprintf("inflight_%d.json", r.Shard)))
}

// watchdog turns a case that never returns into a recorded hang: the in-flight
// case is saved as hang_<shard>.json, goroutine stacks are dumped to the log
// and the shard exits with status 3. vcheck decides whether a hang is a
// violation (properties about termination) or inconclusive (all others).
func (r *Run) watchdog() {
	limit := time.Duration(envInt("VERIF_CASE_TIMEOUT", int64(r.Pick(400, 1200)))) * time.Second
	for {
		time.Sleep(500 * time.Millisecond)
		r.wdMu.Lock()
		hung := r.wdActive && time.Since(r.wdSince) > limit
		r.wdMu.Unlock()
		if !hung {
			continue
		}
		src := filepath.Join(r.Out, fmt.Sprintf("inflight_%d.json", r.Shard))
		if b, err := os.ReadFile(src); err == nil {
			var ff FailFile
			if json.Unmarshal(b, &ff) == nil {
				ff.Message = fmt.Sprintf("case did not return within %v (hang): a call into the library never came back", limit)
				b, _ = json.MarshalIndent(ff, "", " ")
			}
			os.WriteFile(filepath.Join(r.Out, fmt.Sprintf("hang_%d.json", r.Shard)), b, 0o644)
		}
		buf := make([]byte, 1<<20)
		n := runtime.Stack(buf, true)
		fmt.Printf("VCHECK-HANG shard=%d limit=%v\n%s\n", r.Shard, limit, buf[:n])
		r.Flush()
		os.Exit(3)
	}
}

// Fragment is what each shard leaves for vcheck to merge.
type Fragment struct {
	Property    string           `json:"property"`
	Shard       int              `json:"shard"`
	Evals       int64            `json:"evaluations"`
	ShrinkEvals int64            `json:"shrink_evaluations"`
	Nontrivial  int64            `json:"nontrivial_total"`
	Saturated   bool             `json:"hashes_saturated"`
	Labels      map[string]int64 `json:"labels"`
	Samples     []any            `json:"samples"`
	Excluded    map[string]int64 `json:"excluded_known"`
	KnownLines  []string         `json:"known_lines"`
	Notes       []string         `json:"notes"`
	Violations  []string         `json:"violations"`
	Exhaustive  map[string]bool  `json:"exhaustive"`
	Counters    map[string]int64 `json:"counters,omitempty"`
	WallS       float64          `json:"wall_s"`
}

// Flush writes the shard's evidence fragment and hash file.
func (r *Run) Flush() {
	r.mu.Lock()
	defer r.mu.Unlock()
	f := Fragment{Property: r.ID, Shard: r.Shard, Evals: r.evals, ShrinkEvals: r.shrinkEvals,
		Nontrivial: r.nontrivial, Saturated: r.saturated, Labels: r.labels, Samples: r.samples,
		Excluded: r.excluded, KnownLines: r.knownLines, Notes: r.notes, Violations: r.violations,
		Exhaustive: r.exhaustive, Counters: r.counters, WallS: time.Since(r.start).Seconds()}
	b, _ := json.Marshal(f)
	os.WriteFile(filepath.Join(r.Out, fmt.Sprintf("frag_%d.json", r.Shard)), b, 0o644)
	hs := make([]uint64, 0, len(r.hashes))
	for h := range r.hashes {
		hs = append(hs, h)
	}
	sort.Slice(hs, func(i, j int) bool { return hs[i] < hs[j] })
	hb := make([]byte, 8*len(hs))
	for i, h := range hs {
		binary.LittleEndian.PutUint64(hb[8*i:], h)
	}
	os.WriteFile(filepath.Join(r.Out, fmt.Sprintf("frag_%d.hashes", r.Shard)), hb, 0o644)
	if len(r.states) > 0 {
		sb := make([]byte, 0, 8*len(r.states))
		for h := range r.states {
			sb = binary.LittleEndian.AppendUint64(sb, h)
		}
		os.WriteFile(filepath.Join(r.Out, fmt.Sprintf("frag_%d.states", r.Shard)), sb, 0o644)
	}
}

// Failed tells whether a violation was recorded by this shard.
func (r *Run) Failed() bool {
	r.mu.Lock()
	defer r.mu.Unlock()
	return r.failing
}

// ReplayFiles lists the replay files this shard must run: the single
// VERIF_REPLAY path, or every file under replay/<id>/ (sharded).
func (r *Run) ReplayFiles() []string {
	if r.ReplayAt != "" {
		if r.Shard == 0 {
			return []string{r.ReplayAt}
		}
		return nil
	}
	if os.Getenv("VERIF_SKIP_REPLAY") != "" {
		// sensitivity experiments only (seedtool): measure the generated search without the regression tier
		return nil
	}
	m, _ := filepath.Glob(filepath.Join(r.Root, "replay", r.ID, "*.json"))
	sort.Strings(m)
	var out []string
	for i, p := range m {
		if r.Mine(i) {
			out = append(out, p)
		}
	}
	return out
}

// ReplayOnly is true when only one replay file must be executed.
func (r *Run) ReplayOnly() bool { return r.ReplayAt != "" }

// LoadFail reads a replay file.
func LoadFail(path string) (FailFile, error) {
	var ff FailFile
	b, err := os.ReadFile(path)
	if err != nil {
		return ff, err
	}
	err = json.Unmarshal(b, &ff)
	return ff, err
}

// Rapid runs one rapid phase with a per-shard share of the case budget.
// prop must report violations through Violation (which records the fail file
// and then fails the rapid test so that shrinking happens).
func (r *Run) Rapid(t *testing.T, name string, quickN, thoroughN int, prop func(*rapid.T)) {
	if r.ReplayOnly() || r.Failed() {
		return
	}
	n := r.Pick(quickN, thoroughN)
	per := n / r.NShards
	if r.Shard < n%r.NShards {
		per++
	}
	r.phase++
	if per <= 0 {
		return
	}
	seed := r.Seed*100003 + uint64(r.Shard)*1009 + uint64(r.phase)*17 + 1
	flag.Set("rapid.checks", strconv.Itoa(per))
	flag.Set("rapid.seed", strconv.FormatUint(seed, 10))
	flag.Set("rapid.nofailfile", "true")
	if flag.Lookup("rapid.shrinktime") != nil && os.Getenv("VERIF_SHRINKTIME") != "" {
		flag.Set("rapid.shrinktime", os.Getenv("VERIF_SHRINKTIME"))
	}
	t.Run(name, func(t *testing.T) {
		rapid.Check(t, prop)
	})
}

// Survey mode (VERIF_SURVEY=1, development only): failures are tallied by
// class instead of stopping the search.
func (r *Run) Survey() bool { return os.Getenv("VERIF_SURVEY") != "" }

var digits = strings.NewReplacer("0", "", "1", "", "2", "", "3", "", "4", "", "5", "", "6", "", "7", "", "8", "", "9", "")

// Violation records a failing case and fails the (rapid) test.
func (r *Run) Violation(t interface{ Fatalf(string, ...any) }, kind string, c any, format string, a ...any) {
	msg := fmt.Sprintf(format, a...)
	if r.Survey() {
		cls := msg
		if i := strings.IndexByte(cls, '\n'); i >= 0 {
			cls = cls[:i]
		}
		cls = digits.Replace(cls)
		if len(cls) > 90 {
			cls = cls[:90]
		}
		r.mu.Lock()
		r.labels["SURVEY-FAIL:"+cls]++
		first := r.labels["SURVEY-FAIL:"+cls] == 1
		r.mu.Unlock()
		if first {
			b, _ := json.Marshal(c)
			r.Note("first %s :: %s :: %s", cls, msg, string(b))
		}
		return
	}
	r.RecordFailure(kind, c, "", msg)
	t.Fatalf("%s: %s", kind, msg)
}
