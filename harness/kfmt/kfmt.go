// Package kfmt is an independent, deliberately naive reader/writer of the
// Kanzi container format (bitstream version 6). It shares no code with the
// library: it only positions mutations, forges fields and feeds labels.
package kfmt

import (
	"errors"
	"fmt"
)

// Bits is a growable big-endian bit vector.
type Bits struct {
	B []byte
	N int // number of bits
}

// FromBytes wraps bytes as a bit vector.
func FromBytes(b []byte) *Bits { return &Bits{B: append([]byte(nil), b...), N: 8 * len(b)} }

// Get returns bit i.
func (b *Bits) Get(i int) uint64 {
	if i < 0 || i>>3 >= len(b.B) {
		return 0
	}
	return uint64(b.B[i>>3]>>(7-uint(i&7))) & 1
}

// Set sets bit i.
func (b *Bits) Set(i int, v uint64) {
	if i < 0 || i>>3 >= len(b.B) {
		return // positions beyond a truncated image are ignored
	}
	m := byte(1) << (7 - uint(i&7))
	if v&1 == 1 {
		b.B[i>>3] |= m
	} else {
		b.B[i>>3] &^= m
	}
}

// Flip flips bit i.
func (b *Bits) Flip(i int) {
	if i >= 0 && i>>3 < len(b.B) {
		b.B[i>>3] ^= byte(1) << (7 - uint(i&7))
	}
}

// Read reads n bits at pos.
func (b *Bits) Read(pos, n int) (uint64, error) {
	if pos < 0 || n < 0 || pos+n > b.N {
		return 0, errors.New("kfmt: read past end")
	}
	var v uint64
	for i := 0; i < n; i++ {
		v = v<<1 | b.Get(pos+i)
	}
	return v, nil
}

// Put overwrites n bits at pos with the low n bits of v.
func (b *Bits) Put(pos, n int, v uint64) {
	for i := 0; i < n; i++ {
		b.Set(pos+i, v>>uint(n-1-i))
	}
}

// Append appends the low n bits of v.
func (b *Bits) Append(v uint64, n int) {
	for i := n - 1; i >= 0; i-- {
		if b.N>>3 >= len(b.B) {
			b.B = append(b.B, 0)
		}
		b.Set(b.N, v>>uint(i))
		b.N++
	}
}

// AppendRange appends bits [from,to) of src.
func (b *Bits) AppendRange(src *Bits, from, to int) {
	for i := from; i < to; i++ {
		if b.N>>3 >= len(b.B) {
			b.B = append(b.B, 0)
		}
		b.Set(b.N, src.Get(i))
		b.N++
	}
}

// Bytes returns the zero-padded byte image.
func (b *Bits) Bytes() []byte { return append([]byte(nil), b.B[:(b.N+7)>>3]...) }

// Header of a version-6 stream.
type Header struct {
	Version    int
	CkSize     int // 0,1,2 (x32 bits)
	Entropy    int
	Transforms uint64
	BlockSize  int
	SzMask     int
	Size       uint64
	Checksum   uint32
	Bits       int // header length in bits (0 for headerless)
	// bit offsets of fields
	OffVersion, OffCk, OffEntropy, OffTransforms, OffBlockSize, OffSzMask, OffSize, OffChecksum int
}

// Block describes one block of the container.
type Block struct {
	Start        int // first bit of the length prefix
	LenPrefixEnd int // first bit of the block body (mode byte)
	ModeEnd      int
	PreLenStart  int
	PreLenEnd    int
	HashStart    int
	HashEnd      int
	PayloadStart int // first bit of entropy-coded data
	End          int // one past the last bit of the block
	LenWidth     int
	LenBits      uint64
	Mode         byte
	SkipFlags    byte
	HasSkipByte  bool
	Copy         bool
	PreLen       uint64
	Hash         uint64
}

// Stream is a parsed container.
type Stream struct {
	Hdr       Header
	Blocks    []Block
	EndMarker int // bit offset of the end marker (8 zero bits)
	TotalBits int
}

// HeaderChecksum computes the 24-bit header checksum of version 6.
func HeaderChecksum(version, ckSize, entropy int, transforms uint64, blockSize int, szMask int, size uint64) uint32 {
	const H = uint32(0x1E35A7BD)
	seed := uint32(0x01030507) * uint32(version)
	c := H * seed
	c ^= H * uint32(^uint64(ckSize))
	c ^= H * uint32(^uint64(entropy))
	c ^= H * uint32((^transforms)>>32)
	c ^= H * uint32(^transforms)
	c ^= H * uint32(^uint64(blockSize))
	if szMask > 0 {
		c ^= H * uint32((^size)>>32)
		c ^= H * uint32(^size)
	}
	c = (c >> 23) ^ (c >> 3)
	return c & 0xFFFFFF
}

// ParseHeader parses a version-6 header.
func ParseHeader(b *Bits) (Header, error) {
	var h Header
	pos := 0
	rd := func(n int) uint64 {
		v, err := b.Read(pos, n)
		if err != nil {
			panic(err)
		}
		pos += n
		return v
	}
	var perr error
	func() {
		defer func() {
			if r := recover(); r != nil {
				perr = fmt.Errorf("kfmt: %v", r)
			}
		}()
		if rd(32) != 0x4B414E5A {
			panic("bad magic")
		}
		h.OffVersion = pos
		h.Version = int(rd(4))
		if h.Version != 6 {
			panic(fmt.Sprintf("version %d not handled", h.Version))
		}
		h.OffCk = pos
		h.CkSize = int(rd(2))
		h.OffEntropy = pos
		h.Entropy = int(rd(5))
		h.OffTransforms = pos
		h.Transforms = rd(48)
		h.OffBlockSize = pos
		h.BlockSize = int(rd(28)) << 4
		h.OffSzMask = pos
		h.SzMask = int(rd(2))
		h.OffSize = pos
		if h.SzMask > 0 {
			h.Size = rd(16 * h.SzMask)
		}
		rd(15)
		h.OffChecksum = pos
		h.Checksum = uint32(rd(24))
		h.Bits = pos
	}()
	return h, perr
}

// Parse parses a whole stream with a header.
func Parse(stream []byte) (*Stream, error) {
	b := FromBytes(stream)
	h, err := ParseHeader(b)
	if err != nil {
		return nil, err
	}
	return parseBlocks(b, h, h.Bits)
}

// ParseHeaderless parses a headerless stream given the checksum width (0,32,64).
func ParseHeaderless(stream []byte, checksum int) (*Stream, error) {
	b := FromBytes(stream)
	h := Header{Version: 6, CkSize: checksum / 32}
	return parseBlocks(b, h, 0)
}

func parseBlocks(b *Bits, h Header, pos int) (st *Stream, err error) {
	st = &Stream{Hdr: h, TotalBits: b.N}
	rd := func(n int) uint64 {
		v, e := b.Read(pos, n)
		if e != nil {
			panic(e)
		}
		pos += n
		return v
	}
	defer func() {
		if r := recover(); r != nil {
			err = fmt.Errorf("kfmt: %v (after %d blocks)", r, len(st.Blocks))
		}
	}()
	for {
		var k Block
		k.Start = pos
		k.LenWidth = int(rd(5)) + 3
		k.LenBits = rd(k.LenWidth)
		k.LenPrefixEnd = pos
		if k.LenBits == 0 {
			st.EndMarker = k.Start
			return st, nil
		}
		k.End = pos + int(k.LenBits)
		if k.End > b.N {
			panic("block crosses the end")
		}
		k.Mode = byte(rd(8))
		k.Copy = k.Mode&0x80 != 0
		if !k.Copy && k.Mode&0x10 != 0 {
			k.SkipFlags = byte(rd(8))
			k.HasSkipByte = true
		} else if !k.Copy {
			k.SkipFlags = (k.Mode << 4) | 0x0F
		} else {
			k.SkipFlags = 0xFF
		}
		k.ModeEnd = pos
		ds := 1 + int((k.Mode>>5)&3)
		k.PreLenStart = pos
		k.PreLen = rd(8 * ds)
		k.PreLenEnd = pos
		k.HashStart = pos
		if h.CkSize == 1 {
			k.Hash = rd(32)
		} else if h.CkSize == 2 {
			k.Hash = rd(64)
		}
		k.HashEnd = pos
		k.PayloadStart = pos
		if k.PayloadStart > k.End {
			panic("block shorter than its own header")
		}
		pos = k.End
		st.Blocks = append(st.Blocks, k)
	}
}

// AppliedStages counts the transform stages of a chain of n entries that were
// actually applied in block k (skip flag bit clear).
func (k Block) AppliedStages(n int) int {
	if k.Copy {
		return 0
	}
	c := 0
	for i := 0; i < n && i < 8; i++ {
		if k.SkipFlags&(0x80>>uint(i)) == 0 {
			c++
		}
	}
	return c
}

// LenWidthFor mirrors the encoder's choice of length-prefix width.
func LenWidthFor(bits uint64) int {
	if bits < 8 {
		return 3
	}
	v := uint32(bits >> 3)
	l := 0
	for v > 1 {
		v >>= 1
		l++
	}
	return l + 4
}
