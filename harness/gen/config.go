package gen

import (
	"fmt"
	"strings"

	"pgregory.net/rapid"
)

var TransformNames = []string{"NONE", "BWT", "BWTS", "LZ", "LZX", "LZP", "ROLZ", "ROLZX", "RLT", "ZRLT", "MTFT", "RANK", "SRT", "TEXT", "EXE", "MM", "UTF", "PACK", "DNA"}
var EntropyNames = []string{"NONE", "HUFFMAN", "ANS0", "ANS1", "RANGE", "FPAQ", "CM", "TPAQ", "TPAQX"}

// Config is a stream configuration inside the documented domain.
type Config struct {
	Transform  string `json:"transform"`
	Entropy    string `json:"entropy"`
	BlockSize  uint   `json:"block_size"`
	Jobs       uint   `json:"jobs"`
	Checksum   uint   `json:"checksum"`
	Hint       int64  `json:"hint"`
	HintClass  string `json:"hint_class,omitempty"`
	Headerless bool   `json:"headerless,omitempty"`
}

func (c Config) String() string {
	return fmt.Sprintf("%s/%s bs=%d jobs=%d ck=%d hint=%d(%s) headerless=%v", c.Transform, c.Entropy, c.BlockSize, c.Jobs, c.Checksum, c.Hint, c.HintClass, c.Headerless)
}

// ConfigOpts bounds the generator.
type ConfigOpts struct {
	MaxBlock   int  // largest block size
	MaxChain   int  // longest transform chain (1..8)
	MaxJobs    int  // largest job count
	HeavyOK    bool // allow TPAQ/TPAQX/CM at the normal rate
	NoHeadless bool
	Checksums  []uint // nil = {0,32,64}
}

// DrawChain draws a transform chain of 1..maxLen names.
func DrawChain(t *rapid.T, maxLen int, label string) string {
	n := 1
	switch rapid.IntRange(0, 9).Draw(t, label+".lencls") {
	case 0, 1, 2, 3, 4:
		n = 1
	case 5, 6:
		n = 2
	case 7:
		n = 3
	default:
		n = rapid.IntRange(1, maxLen).Draw(t, label+".len")
	}
	if n > maxLen {
		n = maxLen
	}
	parts := make([]string, n)
	for i := range parts {
		parts[i] = rapid.SampledFrom(TransformNames).Draw(t, fmt.Sprintf("%s[%d]", label, i))
	}
	return strings.Join(parts, "+")
}

// DrawEntropy draws an entropy codec name, expensive codecs down-weighted.
func DrawEntropy(t *rapid.T, heavyOK bool, label string) string {
	if heavyOK {
		return rapid.SampledFrom(EntropyNames).Draw(t, label)
	}
	k := rapid.IntRange(0, 79).Draw(t, label+".w")
	switch {
	case k < 72:
		return EntropyNames[k%6] // NONE..FPAQ
	case k < 75:
		return "CM"
	case k < 78:
		return "TPAQ"
	default:
		return "TPAQX"
	}
}

// DrawBlockSize draws a legal block size (multiple of 16 in [1024, max]).
func DrawBlockSize(t *rapid.T, maxBlock int, label string) uint {
	if maxBlock < 1024 {
		maxBlock = 1024
	}
	var v int
	switch rapid.IntRange(0, 9).Draw(t, label+".cls") {
	case 0, 1:
		v = 1024
	case 2, 3, 4:
		v = rapid.IntRange(1024, min(maxBlock, 8192)).Draw(t, label)
	case 5:
		// around 32 KiB (decoder padding switches from 512 to size/16 at 8 KiB; LZ hash regime etc.)
		v = rapid.SampledFrom([]int{8192 - 16, 8192, 8192 + 16, 32768 - 16, 32768, 32768 + 16, 65536, 65536 + 16}).Draw(t, label)
	default:
		v = rapid.IntRange(1024, maxBlock).Draw(t, label)
	}
	if v > maxBlock {
		v = maxBlock
	}
	v &^= 15
	if v < 1024 {
		v = 1024
	}
	return uint(v)
}

// DrawJobs draws a job count with mass on small values and on 63/64.
func DrawJobs(t *rapid.T, maxJobs int, label string) uint {
	if maxJobs <= 1 {
		return 1
	}
	k := rapid.IntRange(0, 19).Draw(t, label+".cls")
	var v int
	switch {
	case k < 6:
		v = 1
	case k < 16:
		v = rapid.IntRange(2, min(8, maxJobs)).Draw(t, label)
	case k < 18:
		v = rapid.IntRange(1, maxJobs).Draw(t, label)
	default:
		v = rapid.SampledFrom([]int{63, 64, 16, 32}).Draw(t, label)
	}
	if v > maxJobs {
		v = maxJobs
	}
	return uint(v)
}

// DrawHint resolves a size-hint class against the real data length.
func DrawHint(t *rapid.T, dataLen int, blockSize uint, label string) (int64, string) {
	n := int64(dataLen)
	b := int64(blockSize)
	switch rapid.IntRange(0, 13).Draw(t, label) {
	case 0, 1, 2, 3:
		return 0, "absent"
	case 4, 5, 6, 7:
		return n, "exact"
	case 8:
		return max(n-1, 0), "minus1"
	case 9:
		k := int64(rapid.IntRange(1, 8).Draw(t, label+".blocks"))
		return max(n-k*b, 1), "minus-blocks"
	case 10:
		return 1, "one"
	case 11:
		return n + 1, "plus1"
	case 12:
		k := int64(rapid.IntRange(1, 80).Draw(t, label+".blocks"))
		return n + k*b, "plus-blocks"
	default:
		return rapid.SampledFrom([]int64{1 << 16, 1<<16 - 1, 1 << 32, 1<<32 + 5, 1<<48 - 1, 1 << 48, 1<<62 + 3}).Draw(t, label+".big"), "huge"
	}
}

// DrawConfig draws a whole configuration (the hint is resolved later, see DrawHint).
func DrawConfig(t *rapid.T, o ConfigOpts) Config {
	var c Config
	if o.MaxChain <= 0 {
		o.MaxChain = 8
	}
	if o.MaxJobs <= 0 {
		o.MaxJobs = 64
	}
	c.Transform = DrawChain(t, o.MaxChain, "transform")
	c.Entropy = DrawEntropy(t, o.HeavyOK, "entropy")
	c.BlockSize = DrawBlockSize(t, o.MaxBlock, "blockSize")
	c.Jobs = DrawJobs(t, o.MaxJobs, "jobs")
	cks := o.Checksums
	if cks == nil {
		cks = []uint{0, 32, 64}
	}
	c.Checksum = rapid.SampledFrom(cks).Draw(t, "checksum")
	if !o.NoHeadless {
		c.Headerless = rapid.IntRange(0, 5).Draw(t, "headerless") == 0
	}
	return c
}
