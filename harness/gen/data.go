// Package gen holds the generators shared by the checks: data-shape recipes
// and stream configurations. Every random choice comes from rapid draws; a
// recipe is expanded deterministically from rapid-drawn parameters so that it
// can be stored in replay files and shrunk.
package gen

import (
	"bytes"
	"encoding/binary"
	"fmt"
	"strings"

	"pgregory.net/rapid"
)

// Kinds of data; each is there because some detector or branch reacts to it.
const (
	KRandom = iota
	KText
	KXML
	KUTF8
	KDNA
	KExeX86
	KExeARM
	KWav
	KBmp
	KRuns
	KSkewed
	KSmallAlpha
	KRepeat
	KNumeric
	KBase64
	KSame
	KMagic
	KZeros
	KRamp
	KMixed
	KLimits // data built to reach the extreme tokens of the run / match coders (see expandInto)
	KRecords // fixed-width text records (CR LF or LF line ends) whose width often divides the block size
	KLatin1  // 8-bit text: words whose letters are often accented Latin-1 bytes (>= 0xC0), so that escapes abound
	KExeELF  // well-formed minimal ELF64 image: one code section at a drawn (possibly unaligned) file offset, x86-64 or AArch64 code
	KStretch // compressible text with ONE uninterrupted incompressible stretch whose length sits around the widths of the literal-run length fields (2^16, 2^21, 2^24)
	NKinds
)

var KindNames = []string{"random", "text", "xml", "utf8", "dna", "exe-x86", "exe-arm", "wav", "bmp", "runs",
	"skewed", "smallalpha", "repeat", "numeric", "base64", "same", "magic", "zeros", "ramp", "mixed", "limits", "records", "latin1", "exe-elf", "stretch"}

// Recipe describes a byte string; Expand builds it.
type Recipe struct {
	Kind  int    `json:"kind"`
	Len   int    `json:"len"`
	Seed  uint64 `json:"seed"`
	P1    int    `json:"p1,omitempty"`
	P2    int    `json:"p2,omitempty"`
	Kind2 int    `json:"kind2,omitempty"` // KMixed: second kind
	Edge  int    `json:"edge,omitempty"`  // edge decoration applied after expansion (see applyEdge)
	Raw   []byte `json:"raw,omitempty"`   // explicit bytes override everything
}

func (r Recipe) String() string {
	if r.Raw != nil {
		return fmt.Sprintf("raw[%d]", len(r.Raw))
	}
	k := "?"
	if r.Kind >= 0 && r.Kind < NKinds {
		k = KindNames[r.Kind]
	}
	return fmt.Sprintf("%s[len=%d seed=%d p1=%d p2=%d edge=%d]", k, r.Len, r.Seed, r.P1, r.P2, r.Edge)
}

// splitmix64 PRNG: deterministic expansion of the rapid-drawn seed.
type rng struct{ s uint64 }

func (r *rng) next() uint64 {
	r.s += 0x9E3779B97F4A7C15
	z := r.s
	z = (z ^ (z >> 30)) * 0xBF58476D1CE4E5B9
	z = (z ^ (z >> 27)) * 0x94D049BB133111EB
	return z ^ (z >> 31)
}
func (r *rng) intn(n int) int {
	if n <= 1 {
		return 0
	}
	return int(r.next() % uint64(n))
}
func (r *rng) fill(b []byte) {
	for i := 0; i < len(b); i += 8 {
		v := r.next()
		for j := 0; j < 8 && i+j < len(b); j++ {
			b[i+j] = byte(v >> (8 * uint(j)))
		}
	}
}

var words = strings.Fields("the of and to in is that it was for on are as with his they at be this from have or by one had not but what all were when we there can an your which their said if do will each about how up out them then she many some so these would other into has more her two like him see time could no make than first been its who now people my made over did down only way find use may water long little very after words called just where most know get through back much before go good new write our used me man too any day same right look think also around another came come work three word must because does part even place well such here take why things help put years different away again off went old number great tell men say small every found still between name should home big give air line set own under read last never us left end along while might next sound below saw something thought both few those always looked show large often together asked house world going want school important until form food keep children feet land side without boy once animals life enough took sometimes four head above kind began almost live page got earth need far hand high year mother light parts country father let night following picture being study second eyes soon times story boys since white days ever paper hard near sentence better best across during today others however sure means knew try told young miles sun ways thing whole hear example heard several change answer room sea against top turned learn point city play toward five using himself usually compression stream block entropy transform")

// Expand builds the bytes described by the recipe.
func (rc Recipe) Expand() []byte {
	if rc.Raw != nil {
		return append([]byte(nil), rc.Raw...)
	}
	n := rc.Len
	if n <= 0 {
		return []byte{}
	}
	b := make([]byte, n)
	expandInto(b, rc.Kind, rc.Seed, rc.P1, rc.P2)
	defer applyEdge(b, rc.Edge)
	if rc.Kind == KMixed {
		// two kinds with a seam at P1 per mille
		seam := n * (rc.P1 % 1001) / 1000
		k2 := rc.Kind2 % KMixed
		expandInto(b[:seam], rc.P2%KMixed, rc.Seed, 0, 0)
		expandInto(b[seam:], k2, rc.Seed^0x5555, 0, 0)
	}
	return b
}

// NEdges is the number of edge decorations.
const NEdges = 19

// applyEdge rewrites a few bytes at the block edges: blocks of a stream are cut at
// arbitrary positions, so a block may start or end in the middle of a CR LF pair,
// of a UTF-8 sequence, of a run, or of an instruction; detectors look at exactly
// these bytes.
func applyEdge(b []byte, edge int) {
	n := len(b)
	if n < 16 {
		return
	}
	switch edge {
	case 1:
		b[0] = '\n'
	case 2:
		b[n-1] = '\r'
	case 3:
		b[0], b[n-1] = '\n', '\r'
	case 4: // two-byte opcode prefix where the EXE scan window ends
		b[n-9], b[n-8] = 0x0F, 0x38
	case 5:
		b[n-9], b[n-8] = 0x0F, 0x3A
	case 6: // relative call/jump opcodes in the last bytes
		b[n-5], b[n-4], b[n-1] = 0xE8, 0xE9, 0xE8
	case 7: // truncated 3-byte UTF-8 sequence at the end, continuation bytes at the start
		b[0], b[1] = 0x80, 0xBF
		b[n-2], b[n-1] = 0xE4, 0xB8
	case 8: // truncated 4-byte sequence
		b[n-3], b[n-2], b[n-1] = 0xF0, 0x9F, 0x98
	case 9: // run reaching the end
		for i := n - 300; i < n; i++ {
			if i >= 0 {
				b[i] = b[n-1]
			}
		}
	case 10: // run from the start
		for i := 0; i < 300 && i < n; i++ {
			b[i] = b[0]
		}
	case 11: // escape-like bytes at both ends
		b[0], b[n-1] = 0xFF, 0xFF
	case 12: // malformed multi-byte UTF-8 sequences in the middle: lead byte, one good continuation byte, then ASCII
		copy(b[n/2:], []byte{0xE2, 0x82, ' '})
		if n > 64 {
			copy(b[n/3:], []byte{0xF0, 0x9F, 0x98, ' '})
		}
	case 13: // one very long run in the middle (longer than a 16-bit run length when the block allows it)
		v := b[n/8]
		for i := n / 8; i < n-n/16 && i < n/8+73480+int(v)*64; i++ {
			b[i] = v
		}
	case 15: // 3-byte lead at n-5 whose second byte (first byte past a scan window that stops 4 bytes early) is ASCII
		b[n-5], b[n-4], b[n-3] = 0xE4, 'A', 0x80
	case 16: // 4-byte lead at n-5, ASCII second byte, continuation bytes behind it
		b[n-5], b[n-4], b[n-3], b[n-2] = 0xF0, 'x', 0x80, 0x80
	case 17: // 4-byte sequence straddling n-4 with a bad third byte; lone continuation bytes at the very end
		b[n-6], b[n-5], b[n-4], b[n-3], b[n-1] = 0xF0, 0x9F, '\n', 0x98, 0xBF
	case 18: // four bytes that cannot start a UTF-8 sequence at the very start (one more than a cut code point leaves)
		b[0], b[1], b[2], b[3] = 0x80, 0xBF, 0x9F, 0x80
	case 14: // a run of 65538..65793 bytes (just above 0xFFFF plus the run threshold) when the block allows it
		v := b[n/16]
		for i := n / 16; i < n-1 && i < n/16+65538+int(v); i++ {
			b[i] = v
		}
	}
}

func expandInto(b []byte, kind int, seed uint64, p1, p2 int) {
	n := len(b)
	if n == 0 {
		return
	}
	r := &rng{s: seed*0x9E3779B97F4A7C15 + uint64(kind)}
	switch kind {
	case KRandom:
		r.fill(b)
	case KText:
		var sb bytes.Buffer
		for sb.Len() < n {
			w := words[r.intn(len(words))]
			if r.intn(12) == 0 {
				w = strings.ToUpper(w[:1]) + w[1:]
			}
			sb.WriteString(w)
			switch r.intn(15) {
			case 0:
				sb.WriteString(". ")
			case 1:
				if p1&1 == 1 {
					sb.WriteString(",\r\n")
				} else {
					sb.WriteString(",\n")
				}
			case 2:
				if p1&1 == 1 {
					sb.WriteString("\r\n")
				} else {
					sb.WriteString("\n")
				}
			default:
				sb.WriteByte(' ')
			}
		}
		copy(b, sb.Bytes())
	case KXML:
		var sb bytes.Buffer
		sb.WriteString("<?xml version=\"1.0\" encoding=\"UTF-8\"?>\n<root>\n")
		tags := []string{"item", "name", "value", "entry", "description", "id"}
		for sb.Len() < n {
			tg := tags[r.intn(len(tags))]
			fmt.Fprintf(&sb, "  <%s id=\"%d\">%s %s</%s>\n", tg, r.intn(100000), words[r.intn(len(words))], words[r.intn(len(words))], tg)
		}
		copy(b, sb.Bytes())
	case KUTF8:
		var sb bytes.Buffer
		nsym := 20 + p1%600 // modest alphabets (the UTF transform applies) two times out of three
		if p1%3 == 1 {
			nsym = 20 + p1%40000
		}
		bases := []rune{0x400, 0x4e00, 0x3040, 0x1F600, 0x600, 0x80, 0x10000}
		base := bases[p2%len(bases)]
		if p2&64 != 0 {
			sb.Write([]byte{0xEF, 0xBB, 0xBF})
		}
		for sb.Len() < n+4 {
			c := base + rune(r.intn(nsym))
			if c >= 0xD800 && c < 0xE000 {
				c += 0x800
			}
			if r.intn(6) == 0 {
				c = ' '
			} else if r.intn(40) == 0 {
				c = '\n'
			}
			if p1 > 40000 && p1%2 == 1 && r.intn(400) == 0 {
				// a code point cut short (text assembled from pieces cut in mid-sequence): lead byte and one
				// continuation byte followed by ASCII; every byte pair is legal UTF-8, the sequence is not
				if c >= 0x10000 {
					sb.Write([]byte{0xF0, 0x9F, 0x98, ' '})
				} else {
					sb.Write([]byte{0xE2, 0x82, ' '})
				}
				continue
			}
			sb.WriteRune(c)
		}
		off := 0
		if p2&128 != 0 {
			off = 1 // start in the middle of a code point now and then
		}
		copy(b, sb.Bytes()[off:])
	case KLimits:
		expandInto(b, KText, seed, 1, 0)
		switch p1 % 6 {
		case 0, 1, 2: // long runs: 65538.., >= 73474, zero run beyond 2^16
			ln := []int{65538 + p2*31, 73474 + p2*1000, 65536 + p2*257}[p1%6]
			v := byte('A' + p2%26)
			if p1%6 == 2 {
				v = 0
			}
			at := n / 10
			for i := at; i < at+ln && i < n-n/20; i++ {
				b[i] = v
			}
		case 3: // one short period repeated to the end: matches of maximal length
			per := 100 + p2
			for i := per; i < n; i++ {
				b[i] = b[i-per]
			}
		case 4: // far matches: the first 5000 bytes come back after more than 64 KiB
			r.fill(b)
			for at := 70000 + p2*100; at+5000 <= n; at += 70000 + p2*100 {
				copy(b[at:at+5000], b[:5000])
			}
		case 5: // every byte value, strongly skewed
			for i := range b {
				if r.intn(8) == 0 {
					b[i] = byte(r.intn(256))
				} else {
					b[i] = byte(r.intn(4))
				}
			}
		}
	case KRecords:
		// Fixed-width records: with a width that divides the block size every block boundary falls at the same
		// place of a record - with shift 1 between the CR and the LF of a line end, so that every block starts
		// with a bare LF and ends with a CR.
		w := []int{16, 24, 32, 64, 100, 128, 256}[p1%7]
		crlf := (p1/7)%3 != 2
		shift := p2 % 4
		line := make([]byte, w)
		pos := 0
		for i := 0; i < shift && pos < n; i++ {
			b[pos] = "\n  "[i]
			pos++
		}
		for pos < n {
			for j := range line {
				line[j] = ' '
			}
			j := 0
			for j < w-12 {
				wd := words[r.intn(len(words))]
				if r.intn(3) == 0 {
					wd = fmt.Sprintf("%d", r.intn(100000))
				}
				j += copy(line[j:max(j, w-3)], wd) + 1
			}
			if crlf {
				line[w-2], line[w-1] = '\r', '\n'
			} else {
				line[w-1] = '\n'
			}
			pos += copy(b[pos:], line)
		}
	case KLatin1:
		// p1 sets the share of accented letters (0..100 %), p2 the share of words unknown to any dictionary
		hi := p1 % 101
		unk := p2 % 101
		vocab := 0
		if p2 > 100 {
			// vocabulary mode: (p2-100)*400 synthetic words (400..62000), each used again and again
			unk, vocab = 0, (p2-100)*400
		}
		var sb bytes.Buffer
		for sb.Len() < n {
			w := []byte(words[r.intn(len(words))])
			if vocab > 0 {
				// word number k of the synthetic vocabulary: 3..9 letters derived from k
				k := uint64(r.intn(vocab))
				h := (k + 1) * 0x9E3779B97F4A7C15
				w = make([]byte, 3+int(h>>60)%7)
				for i := range w {
					h = h*6364136223846793005 + 1442695040888963407
					w[i] = byte('a' + (h>>33)%26)
				}
			} else if r.intn(100) < unk {
				w = make([]byte, 2+r.intn(9))
				for i := range w {
					w[i] = byte('a' + r.intn(26))
				}
			}
			for i := range w {
				if r.intn(100) < hi {
					w[i] = byte(0xC0 + r.intn(0x3F)) // Latin-1 letters
				}
			}
			if r.intn(10) == 0 && w[0] >= 'a' && w[0] <= 'z' {
				w[0] -= 32
			}
			sb.Write(w)
			switch r.intn(12) {
			case 0:
				sb.WriteString(". ")
			case 1:
				sb.WriteString(",\n")
			default:
				sb.WriteByte(' ')
			}
		}
		copy(b, sb.Bytes())
		// the tail is where the coders run out of room: end on a stretch of 0..9 accented letters
		for i, k := 0, int(seed%10); i < k && i < n; i++ {
			b[n-1-i] = byte(0xC0 + r.intn(0x3F))
		}
	case KExeELF:
		if n < 0x100 {
			r.fill(b)
			return
		}
		arm := p1%2 == 0
		copy(b, []byte{0x7F, 'E', 'L', 'F', 2, 1, 1, 0})
		mach := uint16(0x3E)
		if arm {
			mach = 0xB7
		}
		binary.LittleEndian.PutUint16(b[18:], mach)
		// one section header at 0x40 (entry size 0x40): PROGBITS at file offset off
		off := 0x100 + []int{0, 0, 0, 4, 1, 2, 3, 8}[p2%8] + 16*(p2/8%4)
		if off+128 > n {
			off = 0x80
		}
		ln := n - off - 64*(p1/2%2) // the section reaches the end of the block, or stops 64 bytes before it
		if ln < 64 {
			ln = n - off
		}
		binary.LittleEndian.PutUint64(b[0x28:], 0x40)
		binary.LittleEndian.PutUint16(b[0x3A:], 0x40)
		binary.LittleEndian.PutUint16(b[0x3C:], 1)
		binary.LittleEndian.PutUint32(b[0x40+4:], 1)
		binary.LittleEndian.PutUint64(b[0x40+0x18:], uint64(off))
		binary.LittleEndian.PutUint64(b[0x40+0x20:], uint64(ln))
		if arm {
			for i := off; i+4 <= n; i += 4 {
				var ins uint32
				switch r.intn(4) {
				case 0:
					ins = 0x94000000 | uint32(r.intn(2000)) // BL forward
				case 1:
					ins = 0x14000000 | (uint32(-int32(r.intn(200)+1)) & 0x03FFFFFF) // B backward
				default:
					ins = 0xD1000000 | uint32(r.intn(1<<20))
				}
				binary.LittleEndian.PutUint32(b[i:], ins)
			}
		} else {
			for i := off; i < n; i++ {
				switch r.intn(8) {
				case 0:
					b[i] = 0xE8
				case 1:
					b[i] = 0xE9
				case 2:
					b[i] = 0x0F
				case 3, 4:
					b[i] = 0
				case 5:
					b[i] = 0xFF
				default:
					b[i] = byte(r.intn(256))
				}
			}
		}
	case KStretch:
		expandInto(b, KText, seed, 1, 0)
		L := []int{1<<16 + 300, 1<<21 - 4096, 1<<21 + 4096, 3 << 20, 1<<24 + 300, 1<<16 - 2}[p1%6]
		head := 4096 + 1024*(p2%64)
		if head+L+4096 > n {
			L = n / 2
			head = n / 4
		}
		r.fill(b[head : head+L])
	case KDNA:
		al := "ACGT"
		for i := range b {
			b[i] = al[r.intn(4)]
			if p1 > 0 && r.intn(20+p1%100) == 0 {
				b[i] = '\n'
			}
		}
	case KExeX86:
		switch p1 % 4 {
		case 0:
			copy(b, []byte{0x7f, 'E', 'L', 'F', 2, 1, 1, 0})
		case 1:
			copy(b, []byte{'M', 'Z', 0x90, 0})
		case 2:
			copy(b, []byte{0xCF, 0xFA, 0xED, 0xFE})
		}
		start := 8
		if p2&1 == 1 && n > 64 {
			// random header fields (malformed section tables)
			r.fill(b[8:min(n, 64)])
			start = 64
		}
		for i := start; i < n; i++ {
			switch r.intn(10) {
			case 0:
				b[i] = 0xE8
			case 1:
				b[i] = 0xE9
			case 2:
				b[i] = 0x0F
			case 3:
				b[i] = byte(0x80 + r.intn(16))
			case 4, 5:
				b[i] = 0
			case 6:
				b[i] = 0xFF
			default:
				b[i] = byte(r.intn(256))
			}
		}
	case KExeARM:
		if p1%2 == 0 {
			copy(b, []byte{0x7f, 'E', 'L', 'F', 2, 1, 1, 0, 0, 0, 0, 0, 0, 0, 0, 0, 2, 0, 0xB7, 0})
		}
		for i := 64; i+3 < n; i += 4 {
			switch r.intn(6) {
			case 0: // BL
				binary.LittleEndian.PutUint32(b[i:], 0x94000000|uint32(r.intn(1<<20)))
			case 1: // B
				binary.LittleEndian.PutUint32(b[i:], 0x14000000|uint32(r.intn(1<<20)))
			default:
				binary.LittleEndian.PutUint32(b[i:], uint32(r.next()))
			}
		}
	case KWav:
		copy(b, []byte("RIFF\x00\x00\x00\x00WAVEfmt "))
		ch := 1 + p1%4
		step := 2 * ch
		if p2&1 == 1 {
			step = ch // 8-bit samples
		}
		vals := make([]int, ch)
		for i := 16; i+step <= n; i += step {
			for c := 0; c < ch; c++ {
				vals[c] += r.intn(41) - 20
				if p2&1 == 1 {
					b[i+c] = byte(vals[c])
				} else {
					binary.LittleEndian.PutUint16(b[i+2*c:], uint16(vals[c]))
				}
			}
		}
	case KBmp:
		copy(b, []byte{'B', 'M', 0, 0, 0, 0, 0, 0, 0, 0, 54, 0, 0, 0, 40, 0, 0, 0})
		if p1%3 == 1 {
			copy(b, []byte("P6\n64 64\n255\n"))
		}
		v := [3]int{128, 128, 128}
		for i := 54; i < n; i++ {
			c := i % 3
			v[c] += r.intn(9) - 4
			b[i] = byte(v[c])
		}
	case KRuns:
		maxRun := []int{4, 300, 70000, 230}[p1%4]
		for i := 0; i < n; {
			l := 1 + r.intn(maxRun)
			if r.intn(3) == 0 {
				l = 1 + r.intn(4)
			}
			v := byte(r.intn(5) * 60)
			if r.intn(2) == 0 {
				v = 0
			}
			for j := 0; j < l && i < n; j++ {
				b[i] = v
				i++
			}
		}
	case KSkewed:
		dom := 1 + p1%4
		rare := 1 + p2%256
		pct := 90 + r.intn(10)
		for i := range b {
			if r.intn(100) < pct {
				b[i] = byte(r.intn(dom))
			} else {
				b[i] = byte(255 - r.intn(rare))
			}
		}
	case KSmallAlpha:
		k := 2 + p1%15
		for i := range b {
			b[i] = byte('a' + r.intn(k))
		}
	case KRepeat:
		unit := make([]byte, 1+p1%70000)
		r.fill(unit)
		for i := 0; i < n; {
			if r.intn(5) == 0 {
				b[i] = byte(r.intn(256))
				i++
				continue
			}
			i += copy(b[i:], unit[r.intn(len(unit)):])
		}
	case KNumeric:
		al := "0123456789\n "
		for i := range b {
			b[i] = al[r.intn(len(al))]
		}
	case KBase64:
		al := "ABCDEFGHIJKLMNOPQRSTUVWXYZabcdefghijklmnopqrstuvwxyz0123456789+/"
		for i := range b {
			b[i] = al[r.intn(len(al))]
			if i%77 == 76 {
				b[i] = '\n'
			}
		}
	case KSame:
		v := byte(p1)
		for i := range b {
			b[i] = v
		}
	case KMagic:
		magics := [][]byte{{0x1F, 0x8B, 8, 0}, {'P', 'K', 3, 4}, {0x89, 'P', 'N', 'G'}, {0xFF, 0xD8, 0xFF, 0xE0},
			{'7', 'z', 0xBC, 0xAF}, {0xFD, '7', 'z', 'X'}, {'B', 'Z', 'h', '9'}, {0x28, 0xB5, 0x2F, 0xFD},
			{'G', 'I', 'F', '8'}, {0x4B, 0x41, 0x4E, 0x5A}, {'%', 'P', 'D', 'F'}, {'R', 'I', 'F', 'F'}}
		r.fill(b)
		if p2&1 == 1 {
			// compressible body behind a compressed-format magic
			for i := range b {
				b[i] = byte('a' + r.intn(4))
			}
		}
		copy(b, magics[p1%len(magics)])
	case KZeros:
		// all zero
	case KRamp:
		for i := range b {
			b[i] = byte(i * (1 + p1%7))
		}
	}
}

// MarkBlocks embeds the 1-based block index into every block so that blocks
// are pairwise distinguishable (placement oracles).
func MarkBlocks(b []byte, blockSize int) {
	for k, off := 1, 0; off < len(b); k, off = k+1, off+blockSize {
		tag := []byte(fmt.Sprintf("#B%05d#", k))
		copy(b[off:min(len(b), off+blockSize)], tag)
		if off+blockSize <= len(b) && blockSize > 32 {
			copy(b[off+blockSize-len(tag):off+blockSize], tag)
		}
	}
}

// DrawRecipe draws a data recipe with length in [0, maxLen].
func DrawRecipe(t *rapid.T, maxLen int, label string) Recipe {
	var rc Recipe
	rc.Kind = rapid.IntRange(0, NKinds-1).Draw(t, label+".kind")
	rc.Len = DrawLen(t, maxLen, label+".len")
	rc.Seed = rapid.Uint64Range(0, 1<<32).Draw(t, label+".seed")
	rc.P1 = rapid.IntRange(0, 70000).Draw(t, label+".p1")
	rc.P2 = rapid.IntRange(0, 255).Draw(t, label+".p2")
	if rc.Kind == KMixed {
		rc.Kind2 = rapid.IntRange(0, KMixed-1).Draw(t, label+".kind2")
	}
	if rapid.IntRange(0, 4).Draw(t, label+".edged") == 0 {
		rc.Edge = rapid.IntRange(1, NEdges-1).Draw(t, label+".edge")
		// half of the decorated recipes get a decoration that matters for their kind
		if rel := edgesFor(rc.Kind); len(rel) > 0 && rapid.Bool().Draw(t, label+".edgerel") {
			rc.Edge = rapid.SampledFrom(rel).Draw(t, label+".edgek")
		}
	}
	return rc
}

// edgesFor lists the edge decorations that the detectors for this kind of data look at.
func edgesFor(kind int) []int {
	switch kind {
	case KText, KXML, KRecords, KLatin1:
		return []int{1, 2, 3, 12}
	case KUTF8:
		return []int{7, 8, 12, 15, 16, 17, 18}
	case KExeX86, KExeARM, KExeELF:
		return []int{4, 5, 6}
	case KRuns, KZeros, KSame:
		return []int{9, 10, 13, 14}
	}
	return nil
}

// FixEdge re-draws the decoration after a check replaced the kind of a recipe (detector-affine data).
func FixEdge(t *rapid.T, rc *Recipe, label string) {
	if rc.Edge != 0 {
		if rel := edgesFor(rc.Kind); len(rel) > 0 && rapid.Bool().Draw(t, label+".edgerel2") {
			rc.Edge = rapid.SampledFrom(rel).Draw(t, label+".edgek2")
		}
	}
}

// DrawLen draws a length biased to small values and boundaries.
func DrawLen(t *rapid.T, maxLen int, label string) int {
	if maxLen <= 0 {
		return 0
	}
	switch rapid.IntRange(0, 9).Draw(t, label+".cls") {
	case 0:
		return rapid.IntRange(0, min(maxLen, 40)).Draw(t, label)
	case 1, 2:
		return rapid.IntRange(0, min(maxLen, 2048)).Draw(t, label)
	default:
		return rapid.IntRange(0, maxLen).Draw(t, label)
	}
}
