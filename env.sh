# sourced by vcheck and setup: offline Go environment
export GOFLAGS=-mod=mod GOPROXY=off GOSUMDB=off GOTOOLCHAIN=local
_gmc="${GOMODCACHE:-$(go env GOMODCACHE 2>/dev/null)}"
_g124="$_gmc/golang.org/toolchain@v0.0.1-go1.24.0.linux-amd64/bin/go"
if [ -x "$_g124" ]; then
  export VGO="$_g124"
elif command -v go1.26.8 >/dev/null 2>&1; then
  export VGO="$(command -v go1.26.8)"
else
  export VGO=go
fi
