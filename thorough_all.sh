#!/bin/bash
# development helper: run every thorough tier in turn against a snapshot of /repo (vp run --with-repo) and log the outcome
# usage: vp run --with-repo --timeout 10h -- ./thorough_all.sh [ids...]
set -u
cd "$(dirname "$0")"
if [ -n "${VP_RUN_REPO:-}" ]; then
  sed -i "s#=> /repo/v2#=> $VP_RUN_REPO/v2#" harness/go.mod
  export VERIF_REPO=$VP_RUN_REPO
fi
ids="$*"
[ -z "$ids" ] && ids="C16 C14 C12 C13 C15 C09 C11 C10 C06 C01 C02 C08 C17 C04 C05 C07 C03 C18 C19"
for c in $ids; do
  t0=$(date +%s)
  nice -n 10 ./vcheck run $c thorough > thorough_$c.log 2>&1
  rc=$?
  echo "$c exit=$rc secs=$(( $(date +%s) - t0 )) :: $(tail -1 thorough_$c.log)"
  grep -E "^(VIOLATION|KNOWN-FINDING|vcheck:)" thorough_$c.log
done
