# one claim(...) per built check; read by mkmanifest.py
claim("C16", "exploration",
      "property-based testing (rapid) + exhaustive small-scope enumeration against a validity predicate",
      "Generated-input search over histograms x scales with an explicit validity predicate (sum == scale, presence preserved, ordered alphabet). Exhaustive over a 4-symbol sub-domain and a directed rare+dominant family, random beyond; gives high confidence but no proof of absence.",
      "Trusts: the predicate restates the property; totals <= 2^27; present symbols <= scale.", "DESIGN.md 4/C16")
claim("C01", "exploration",
      "property-based testing (rapid): generated configurations x data shapes, round-trip oracle, independent container parser for non-triviality",
      "Round-trip oracle over rapid-drawn (chain, entropy, block size, jobs, checksum, hint, header/headerless, data shape, Write/Read partitions); finds configuration- and data-dependent losses the fixed-input unit tests cannot. Search, not proof.",
      "Trusts: in-memory sink/source are healthy; hints >= 0; blocks <= 16 MiB.", "DESIGN.md 4/C01")
claim("C06", "exploration",
      "property-based testing (rapid) over I/O chunking histories + exhaustive constant piece sizes 1..64; differential oracle against the always-filling run",
      "Metamorphic/differential oracle: any partition of the compressed bytes into short reads and of the plain bytes into Writes must give the same result as the unchunked run.",
      "Trusts: the source never returns (0,nil); CLI read loop is under C19.", "DESIGN.md 4/C06")
claim("C12", "exploration",
      "property-based testing (rapid): histogram-recipe blocks through each entropy codec inside a longer bitstream; round-trip + bit-exact consumption + sentinel oracle",
      "Generated blocks (histogram shapes x lengths around chunk thresholds) are encoded between a byte prefix and a sentinel; decode must restore the block and leave the bit cursor exactly where the encoder stopped.",
      "Trusts: blocks start byte-aligned as in every caller.", "DESIGN.md 4/C12")
claim("C13", "exploration",
      "property-based testing (rapid): each transform on generated blocks with canary-guarded caller-owned buffers; inverse-of-forward, bound and clean-decline oracle",
      "Per-transform forward/inverse pairs on detector-satisfying and adversarial data with data-type hints injected by reflection; checks the advertised bound, buffer canaries, src immutability on decline, and exact inversion into a decoder-sized buffer.",
      "Trusts: the harness's replica of the factory's context keys for the direct mode.", "DESIGN.md 4/C13")
claim("C14", "exploration",
      "model-based property testing (rapid): random bit-level programs checked step by step against a bit-vector reference model, with re-partitioned read-back",
      "Writer and reader programs are compared with a trivially correct []bit model after every operation (counters, values, byte image, refusal after Close).",
      "Trusts: operation arguments stay in their documented domain.", "DESIGN.md 4/C14")
claim("C15", "exploration",
      "exhaustive enumeration of names x spellings and of all chains of length <= 3 for the name laws, plus rapid-drawn mixed-case chains; differential oracle against the canonical spelling",
      "Every spelling must produce the canonical spelling's exact stream and decode; name<->type laws enumerated exhaustively for chains up to 3.",
      "Trusts: cases whose canonical spelling does not round-trip are C01's business and are skipped (counted).", "DESIGN.md 4/C15")
