# one claim(...) per built check; read by mkmanifest.py
claim("C16", "exploration",
      "property-based testing (rapid) + exhaustive small-scope enumeration against a validity predicate",
      "Generated-input search over histograms x scales with an explicit validity predicate (sum == scale, presence preserved, ordered alphabet). Exhaustive over a 4-symbol sub-domain and a directed rare+dominant family, random beyond; gives high confidence but no proof of absence.",
      "Trusts: the predicate restates the property; totals <= 2^27; present symbols <= scale.", "DESIGN.md 4/C16")
claim("C01", "exploration",
      "property-based testing (rapid): generated configurations x data shapes, round-trip oracle, independent container parser for non-triviality",
      "Round-trip oracle over rapid-drawn (chain, entropy, block size, jobs, checksum, hint, header/headerless, data shape, Write/Read partitions); finds configuration- and data-dependent losses the fixed-input unit tests cannot. Search, not proof.",
      "Trusts: in-memory sink/source are healthy; hints >= 0; blocks <= 16 MiB.", "DESIGN.md 4/C01")
claim("C06", "exploration",
      "property-based testing (rapid) over I/O chunking histories + exhaustive constant piece sizes 1..64; differential oracle against the always-filling run",
      "Metamorphic/differential oracle: any partition of the compressed bytes into short reads and of the plain bytes into Writes must give the same result as the unchunked run.",
      "Trusts: the source never returns (0,nil); CLI read loop is under C19.", "DESIGN.md 4/C06")
claim("C12", "exploration",
      "property-based testing (rapid): histogram-recipe blocks (sampled, exact geometric and Fibonacci counts), blocks built against the bit-wise coders' own predictors, and data-shape recipes through each entropy codec inside a longer bitstream; directed families at the scale-sized lengths; round-trip + bit-exact consumption + sentinel oracle",
      "Generated blocks (histogram shapes x lengths around chunk thresholds) are encoded between a byte prefix and a sentinel; decode must restore the block and leave the bit cursor exactly where the encoder stopped.",
      "Trusts: blocks start byte-aligned as in every caller.", "DESIGN.md 4/C12")
claim("C13", "exploration",
      "property-based testing (rapid): each transform on generated blocks (25 data-shape recipes incl. well-formed executables, 8-bit text with large vocabularies, fixed-width records, incompressible stretches; edge decorations) with canary-guarded caller-owned buffers; directed families at the internal chunk sizes and length-field limits (16 MiB ROLZ chunks, 2^16/2^21/2^24 literal runs, BWT above 4/8 MiB with up to 32 jobs); inverse-of-forward, bound and clean-decline oracle",
      "Per-transform forward/inverse pairs on detector-satisfying and adversarial data with data-type hints injected by reflection; checks the advertised bound, buffer canaries, src immutability on decline, and exact inversion into a decoder-sized buffer.",
      "Trusts: the harness's replica of the factory's context keys for the direct mode.", "DESIGN.md 4/C13")
claim("C14", "exploration",
      "model-based property testing (rapid): random bit-level programs checked step by step against a bit-vector reference model, with re-partitioned read-back",
      "Writer and reader programs are compared with a trivially correct []bit model after every operation (counters, values, byte image, refusal after Close).",
      "Trusts: operation arguments stay in their documented domain.", "DESIGN.md 4/C14")
claim("C15", "exploration",
      "exhaustive enumeration of names x spellings and of all chains of length <= 3 for the name laws, rapid-drawn mixed-case chains with a differential oracle against the canonical spelling, and a chain-versus-composition oracle over all ordered pairs of transforms (a header type must denote the variant that coded its stage)",
      "Every spelling must produce the canonical spelling's exact stream and decode; name<->type laws enumerated exhaustively for chains up to 3; a chain applied as one sequence must equal its stages built one by one from their own types.",
      "Trusts: cases whose canonical spelling does not round-trip are C01's business and are skipped (counted).", "DESIGN.md 4/C15")
claim("C02", "exploration",
      "property-based testing (rapid) with structure-aware payload mutation positioned by an independent container parser; prefix oracle over all Read calls incl. after errors; exhaustive single-bit sweep on small streams",
      "Checksummed streams are damaged strictly inside block payloads (bit flips, substitutions, swaps, zero runs, copies, and whole-block splices that keep the stored hash) and everything the reader ever returns must stay a prefix of the original; an undetected change must not exist.",
      "Trusts: 32-bit hash collisions are negligible (2^-32 per damaged block); kfmt only positions mutations.", "DESIGN.md 4/C02")
claim("C08", "fault_enumeration",
      "fault injection enumerated exhaustively over the index k of every underlying sink Write/Close and source Read call of rapid-drawn scenarios; caller-model variants after the error",
      "For each generated scenario every fault index up to the fault-free call count is injected (transient/sticky, 0-byte or prefix accept, (n>0,err) reads), and the API must report it: no success for an incomplete sink, no clean EOF for incomplete output, no panic.",
      "Trusts: faults occur only at the io.Writer/io.Reader/io.Closer boundary; fault-free call counts define the enumeration bound.", "DESIGN.md 4/C08")
claim("C09", "exploration",
      "exhaustive enumeration of cut positions over rapid-drawn small streams, boundary-focused + random cuts for larger ones; error-or-nothing oracle",
      "Every strict prefix of generated valid streams (all positions for streams <= 8 KiB) must end in a non-EOF error with only prefix bytes delivered.",
      "Trusts: always-filling source; kfmt only selects boundary cuts for large streams.", "DESIGN.md 4/C09")
claim("C11", "exploration",
      "exhaustive enumeration of all block ranges over rapid-drawn streams of 1..12 blocks (plus 60..140-block streams), slice oracle and listener-based skip oracle",
      "All (from,to) ranges incl. empty / beyond-the-end / one-sided, for reader jobs 1..8, must return exactly the addressed slice and never decode a block outside the range.",
      "Trusts: block-distinguishable data; BEFORE_ENTROPY listener events as the witness of decoding.", "DESIGN.md 4/C11")
claim("C17", "exploration",
      "model-based property testing (rapid): random API call histories on Writer and Reader checked step by step against a small reference state machine, with transient sink faults",
      "Generated histories (zero-length and batch-crossing writes, repeated Close, calls after Close, GetWritten/GetRead probes, armed one-shot sink failures) are compared after every call with the documented state machine.",
      "Trusts: single-goroutine use per object; the single-Write stream as reference for the accepted bytes.", "DESIGN.md 4/C17")
claim("C03", "exploration",
      "structure-aware generated corruption (header/length/mode/codec-header forging with recomputed checksums, payload mutation, random bytes) decoded in sandboxed child processes; thorough adds coverage-guided native Go fuzzing re-judged by the same sandbox",
      "Forged and random streams for every transform/entropy pair are decoded to the end in a child process: the oracle is survival and termination (error or EOF), with time and memory rules that cannot alarm on honest behaviour.",
      "Trusts: time budgets (20 s + 2 s/MiB, reproduced alone at 5x) and the 4 GiB ceiling rule; forged block sizes capped at 16/64 MiB; KF-16-shaped inputs excluded while that finding is open.", "DESIGN.md 4/C03")
claim("C04", "exploration",
      "property-based testing (rapid) with schedule perturbation on the verif hooks and a controlled reverse-completion-order scheduler; metamorphic oracle (every variant == single-job single-Write reference)",
      "Each generated (data, parameters) is compressed under many job counts, Write partitions, repeated runs, yield/sleep perturbation and forced reverse completion order; all outputs must be byte-identical to the reference.",
      "Trusts: schedules are sampled (exhaustive only in C07's N<=4 enumeration, which applies the same oracle).", "DESIGN.md 4/C04")
claim("C05", "exploration",
      "property-based testing (rapid) with schedule perturbation; differential oracle across reader job counts plus a deterministic damaged-block oracle (prefix, limit, error at the covering call)",
      "Valid and single-damaged-block streams are decoded with many job counts, buffer sizes and perturbed schedules: healthy streams must come back exactly once in order; for a failing block nothing from it or beyond may ever be delivered and the covering call must report the error.",
      "Trusts: schedules sampled here, enumerated for N<=4 in C07; block-distinguishable data.", "DESIGN.md 4/C05")
claim("C07", "model_checking",
      "stateless model checking of the real code: a controlled scheduler on the verif hooks enumerates all task schedules (DFS with partial-order reduction) for N<=4 tasks x every fault plan; an executable trace monitor is the model; rapid-drawn schedules for N=5..12",
      "Every interleaving of up to 4 block tasks (at hook granularity), crossed with a failure of each task at each protocol step, data-caused failures, end-of-stream and skipped-block outcomes, is executed on the real Writer/Reader and its trace must be accepted by the 5-clause monitor; N=4 is complete in thorough and capped per plan in quick.",
      "Trusts: hook points cover every access to the shared counter; the reduction advances non-conflicting steps deterministically.", "DESIGN.md 4/C07")
claim("C10", "exploration",
      "differential property-based testing against a vendored pinned reference build (encoder and decoder) plus a 290-stream golden corpus with recorded SHA-256",
      "Streams are written by the frozen reference encoder and must decode with the current decoder to exactly what the reference decoder returns; archived streams must keep decoding to their recorded originals.",
      "Trusts: the vendored snapshot of commit 76efab5 as the definition of format 6.", "DESIGN.md 4/C10")
claim("C18", "exploration",
      "property-based testing (rapid) of K concurrent pipelines under the Go race detector with schedule perturbation; differential oracle against the same pipelines run alone",
      "Groups of 2..8 independent compress/decompress pipelines over all codecs run concurrently in a -race build; results must equal the solo runs and the race detector must stay silent.",
      "Trusts: the race detector only sees executed schedules.", "DESIGN.md 4/C18")
claim("C19", "exploration",
      "property-based testing (rapid) of the command-line binary as a black box: generated file trees x option combinations x scenarios, with SIGKILL crash points drawn over the measured run duration",
      "The tool built from the working tree is run on generated trees: round trip through files, directories and pipes, no-overwrite, same-file refusal, input immutability, --rm ordering, and the either-source-or-decodable-output invariant after SIGKILL at drawn instants.",
      "Trusts: kill instants are sampled; fsync durability is out of scope.", "DESIGN.md 4/C19")
