# one claim(...) per built check; read by mkmanifest.py
claim("C16", "exploration",
      "property-based testing (rapid) + exhaustive small-scope enumeration against a validity predicate",
      "Generated-input search over histograms x scales with an explicit validity predicate (sum == scale, presence preserved, ordered alphabet). Exhaustive over a 4-symbol sub-domain and a directed rare+dominant family, random beyond; gives high confidence but no proof of absence.",
      "Trusts: the predicate restates the property; totals <= 2^27; present symbols <= scale.", "DESIGN.md 4/C16")
