#!/usr/bin/env python3
"""Regenerates MANIFEST.json from the table below (keeps it valid at all times)."""
import json, os, subprocess

ROOT = os.path.dirname(os.path.abspath(__file__))

# id -> (level, technique, level text, level note, design ref); only built checks are listed
CLAIMED = {}
NOT_YET = {}


def claim(cid, level, technique, text, note, ref):
    CLAIMED[cid] = dict(level=level, technique=technique, text=text, note=note, ref=ref)


exec(open(os.path.join(ROOT, "manifest_table.py")).read())

props = [json.loads(l)["id"] for l in open(os.path.join(ROOT, "properties.jsonl"))]
hook_commits = []
try:
    out = subprocess.run(["git", "-C", "/repo", "log", "--format=%H %s"], capture_output=True, text=True).stdout
    hook_commits = [l.split()[0] for l in out.splitlines() if " verif:" in " " + l]
except Exception:
    pass

man = {
    "version": 1,
    "setup_cmd": "cd /verif && ./vcheck setup",
    "hooks": {
        "guard": "verif",
        "enable": "go build tag: every check builds /repo/v2 through the harness module's replace directive with `go test -c -tags verif`",
        "baseline_off_cmd": "cd /repo/v2 && GOFLAGS=-mod=mod go test -json -vet=off -count=1 -timeout 25m ./...",
        "source_commits": hook_commits,
        "add_only": True,
    },
    "engines": [
        {"name": "vcheck", "path": "/verif/vcheck", "serves_properties": sorted(CLAIMED),
         "kind_free_text": "driver: rebuilds the harness test binary against /repo's working tree (tag verif), runs the replay tier and the generated search in up to 16 seeded shards, merges evidence, prints VIOLATION / KNOWN-FINDING lines"},
        {"name": "harness", "path": "/verif/harness", "serves_properties": sorted(CLAIMED),
         "kind_free_text": "Go module: pgregory.net/rapid v1.3.0 generators and state machines, exhaustive small-scope enumerators, independent container parser (kfmt), fault-injecting I/O, controlled scheduler on the verif hooks, sandboxed child workers, native go fuzz targets"},
    ],
    "checks": [],
    "not_applicable": [],
    "notes": "Technique family: property-based testing and fuzzing. See DESIGN.md. Exit codes: 0 held, 1 VIOLATION, 2 inconclusive infrastructure problem.",
}
for cid in props:
    if cid in CLAIMED:
        c = CLAIMED[cid]
        man["checks"].append({
            "property_id": cid,
            "quick_cmd": "./vcheck run %s quick" % cid,
            "thorough_cmd": "./vcheck run %s thorough" % cid,
            "evidence_file": "/verif/evidence/%s.json" % cid,
            "replay_cmd_template": "./vcheck replay %s {path}" % cid,
            "engine": "vcheck",
            "level_claimed": {"category": c["level"], "text": c["text"], "design_ref": c["ref"]},
            "level_note": c["note"],
            "technique": c["technique"],
        })
    else:
        man["not_applicable"].append({"property_id": cid, "reason": NOT_YET.get(cid, "check designed (DESIGN.md section 4) but not built yet in this tree; not claimed until it runs")})
json.dump(man, open(os.path.join(ROOT, "MANIFEST.json"), "w"), indent=1)
print("MANIFEST.json: %d claimed, %d not claimed" % (len(man["checks"]), len(man["not_applicable"])))
