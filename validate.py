#!/usr/bin/env python3
"""validate.py - checks MANIFEST.json and every evidence file against the schemas under /root/.vp (development helper)."""
import json, sys, glob, os
try:
    import jsonschema
except ImportError:
    sys.path.insert(0, "/opt/veriftools/pyvenv/lib/python3.11/site-packages")
    import jsonschema
bad = 0
man = json.load(open("/verif/MANIFEST.json"))
try:
    jsonschema.validate(man, json.load(open("/root/.vp/MANIFEST.schema.json")))
    print("MANIFEST.json ok: %d checks, not_applicable=%s" % (len(man["checks"]), man.get("not_applicable")))
except Exception as e:
    bad += 1
    print("MANIFEST.json INVALID:", str(e)[:400])
es = json.load(open("/root/.vp/EVIDENCE.schema.json"))
for c in man["checks"]:
    p = c["evidence_file"]
    try:
        ev = json.load(open(p))
        jsonschema.validate(ev, es)
        cov = ev["coverage"]
        assert ev["level"] == c["level_claimed"]["category"], "level differs from the manifest claim"
        print("%s ok tier=%s evals=%d distinct=%d samples=%d wall=%.0fs viol=%s" % (c["property_id"], ev["tier"], cov["evaluations"], cov["distinct_nontrivial"], len(cov["samples"]), ev["wall_s"], ev.get("violations")))
        if ev.get("violations"):
            bad += 1
    except Exception as e:
        bad += 1
        print("%s INVALID: %s" % (c["property_id"], str(e)[:300]))
sys.exit(1 if bad else 0)
