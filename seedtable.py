#!/usr/bin/env python3
"""Rewrites the seeded-change table of DESIGN.md (between the SEEDTABLE markers) from seeded/*/meta.json."""
import glob, json, os, re

ROOT = os.path.dirname(os.path.abspath(__file__))
rows = []
for d in sorted(glob.glob(os.path.join(ROOT, "seeded", "*-*"))):
    mp = os.path.join(d, "meta.json")
    if not os.path.exists(mp):
        continue
    m = json.load(open(mp))
    name = os.path.basename(d)
    det = m.get("detection", {})
    caught = sorted(set([c for c, v in det.items() if v.get("detected")] +
                        [re.sub(r"caught_by_(\w+)\.json", r"\1", f) for f in os.listdir(d) if f.startswith("caught_by_")]))
    missed = sorted(c for c, v in det.items() if not v.get("detected") and c not in caught)
    how = []
    for c in caught:
        v = det.get(c, {})
        via = v.get("via", "")
        s = c
        if via.startswith("replay tier"):
            s += " (replay tier%s)" % ("; search alone: " + ("yes" if v.get("search_alone", {}).get("detected") else "no") if "search_alone" in v else "")
        if "secs" in v:
            s += " %ds" % round(v["secs"])
        how.append(s)
    summ = (m.get("summary") or "").replace("|", "/").replace("\n", " ")
    summ = summ if len(summ) <= 230 else summ[:227] + "..."
    needs = (m.get("needs_to_manifest") or "").replace("|", "/").replace("\n", " ")
    needs = needs if len(needs) <= 200 else needs[:197] + "..."
    rows.append("| %s | %s | %s | %s | %s |" % (name, summ, needs, ", ".join(how) or "**none**", ", ".join(missed)))
table = ["| seed | change | needs | detected by (quick tier) | tried, not detected |", "|---|---|---|---|---|"] + rows
p = os.path.join(ROOT, "DESIGN.md")
s = open(p).read()
b, e = "<!-- SEEDTABLE:BEGIN -->", "<!-- SEEDTABLE:END -->"
assert b in s and e in s
s = s[:s.index(b) + len(b)] + "\n" + "\n".join(table) + "\n" + s[s.index(e):]
open(p, "w").write(s)
print("%d seeded changes, %d detected by at least one check" % (len(rows), sum("**none**" not in r for r in rows)))
