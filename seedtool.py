#!/usr/bin/env python3
"""seedtool.py - handle seeded changes (realistic property-breaking patches written by sub-agents).

  seedtool.py verify <srcdir> <prop> <name>    confirm a candidate in a scratch worktree (suite passes, demo fails with / passes without),
                                                then store it as /verif/seeded/<prop>-<name>/ {patch.diff, demo files, meta.json}
  seedtool.py run <prop>-<name> [check ids...]  apply the stored patch to a scratch worktree of /repo HEAD, run the named checks (default: the owner) quick
                                                against it (alternate go.mod, work and evidence directories), remove the worktree
  seedtool.py runall                            run every stored seed against its owning check, print a table

Nothing is ever committed to /repo, and since the runs use a scratch worktree /repo's working tree is not touched either.
"""
import glob, json, os, re, shutil, subprocess, sys, time

ROOT = os.path.dirname(os.path.abspath(__file__))
SEEDED = os.path.join(ROOT, "seeded")
GOBIN = "/root/go/pkg/mod/golang.org/toolchain@v0.0.1-go1.24.0.linux-amd64/bin"


def env():
    e = dict(os.environ)
    e.update(GOFLAGS="-mod=mod", GOPROXY="off", GOSUMDB="off", GOTOOLCHAIN="local")
    e["PATH"] = GOBIN + ":" + e["PATH"]
    return e


def sh(cmd, cwd=None, timeout=1800):
    p = subprocess.run(cmd, shell=True, cwd=cwd, env=env(), capture_output=True, text=True, timeout=timeout)
    return p.returncode, p.stdout + p.stderr


def verify(src, prop, name):
    wt = "/tmp/wt/verify-%s-%s" % (prop, name)
    sh("git -C /repo worktree remove --force %s" % wt)
    rc, out = sh("git -C /repo worktree add -q --detach %s HEAD" % wt)
    assert rc == 0, out
    res = {"property": prop, "name": name}
    try:
        patch = os.path.join(src, "patch.diff")
        rc, out = sh("git -C %s apply --check %s" % (wt, patch))
        res["applies_to_current_head"] = rc == 0
        if rc != 0:
            # try 3-way
            rc, out = sh("git -C %s apply -3 %s" % (wt, patch))
            res["applies_3way"] = rc == 0
            if rc != 0:
                res["error"] = out[-800:]
                return res
            sh("git -C %s reset -q" % wt)
        else:
            sh("git -C %s apply %s" % (wt, patch))
        # refresh the patch against the current head
        rc, newpatch = sh("git -C %s diff" % wt)
        # demo module: rewrite the replace directive to the scratch worktree
        demo = "/tmp/wt/demo-%s-%s" % (prop, name)
        shutil.rmtree(demo, ignore_errors=True)
        shutil.copytree(src, demo)
        gm = os.path.join(demo, "go.mod")
        indemo = []
        if os.path.exists(gm):
            s = open(gm).read()
            s = re.sub(r"=> \S+/v2", "=> %s/v2" % wt, s)
            open(gm, "w").write(s)
            demo_cmd = "cd %s && go test -count=1 ./... 2>&1 | tail -40" % demo
        else:
            # demo test files meant to live inside a package dir: meta.json may say where
            meta = json.load(open(os.path.join(src, "meta.json")))
            pk = meta.get("demo_package_dir") or meta.get("demo_dir")
            if not pk:
                heads = " ".join(open(f).read(400) for f in glob.glob(os.path.join(src, "*_test.go")))
                m = re.search(r"^package (\w+)", heads, re.M)
                pk = {"main": "v2/app", "io": "v2/io", "bitstream": "v2/bitstream", "entropy": "v2/entropy", "transform": "v2/transform"}.get(m.group(1) if m else "io", "v2/io")
            for f in glob.glob(os.path.join(src, "*_test.go")):
                dst = os.path.join(wt, pk, os.path.basename(f))
                shutil.copyfile(f, dst)
                indemo.append(dst)
            flags = ""
            if meta.get("demo_tags"):
                flags += " -tags %s" % meta["demo_tags"]
            if meta.get("demo_race"):
                flags += " -race"
            only = " -run '%s'" % meta["demo_run"] if meta.get("demo_run") else ""
            demo_cmd = "cd %s/%s && go test%s -vet=off -count=1%s . 2>&1 | tail -40" % (wt, pk, flags, only)
        rc_with, out_with = sh(demo_cmd, timeout=1200)
        res["demo_fails_with_patch"] = ("FAIL" in out_with) or rc_with != 0
        res["demo_with_tail"] = out_with[-600:]
        for f in indemo:
            os.remove(f)
        rc_s, out_s = sh("cd %s/v2 && go test -vet=off -count=1 ./... 2>&1 | tail -15" % wt, timeout=2400)
        res["existing_suite_passes_with_patch"] = "FAIL" not in out_s and "ok" in out_s
        res["suite_tail"] = out_s[-500:]
        sh("git -C %s checkout -- ." % wt)
        for f in indemo:
            shutil.copyfile(os.path.join(src, os.path.basename(f)), f)
        rc_wo, out_wo = sh(demo_cmd, timeout=1200)
        res["demo_passes_without_patch"] = "FAIL" not in out_wo and ("ok" in out_wo or "PASS" in out_wo)
        res["demo_without_tail"] = out_wo[-300:]
        ok = res["demo_fails_with_patch"] and res["existing_suite_passes_with_patch"] and res["demo_passes_without_patch"]
        res["confirmed"] = ok
        if ok:
            d = os.path.join(SEEDED, "%s-%s" % (prop, name))
            shutil.rmtree(d, ignore_errors=True)
            os.makedirs(d)
            open(os.path.join(d, "patch.diff"), "w").write(newpatch)
            for f in os.listdir(src):
                if f in ("patch.diff", "meta.json") or os.path.isdir(os.path.join(src, f)):
                    continue
                shutil.copyfile(os.path.join(src, f), os.path.join(d, f))
            meta = {}
            try:
                meta = json.load(open(os.path.join(src, "meta.json")))
            except Exception:
                pass
            meta.update({"property": prop, "confirmed_by_verifier": {
                "base_commit": subprocess.run("git -C /repo rev-parse --short HEAD", shell=True, capture_output=True, text=True).stdout.strip(),
                "existing_suite_passes_with_patch": True, "demo_fails_with_patch": True, "demo_passes_without_patch": True,
                "what_was_run": "scratch worktree of /repo HEAD: git apply patch.diff; go test -vet=off -count=1 ./... in v2 (pass); demo with patch (fail) and without (pass)"}})
            json.dump(meta, open(os.path.join(d, "meta.json"), "w"), indent=1)
        shutil.rmtree(demo, ignore_errors=True)
    finally:
        sh("git -C /repo worktree remove --force %s" % wt)
        shutil.rmtree(wt, ignore_errors=True)
        sh("git -C /repo worktree prune")
    return res


def run(seed, checks=None, tier="quick"):
    """run checks against the seeded change in a scratch worktree of /repo's HEAD (nothing in /repo, /verif/evidence or
    /verif/.work is touched, so checks of the real tree can run at the same time)"""
    d = os.path.join(SEEDED, seed)
    prop = seed.split("-")[0]
    checks = checks or [prop]
    wt = "/tmp/wt/run-%s" % seed
    scratch = "/tmp/wt/runwork-%s" % seed
    sh("git -C /repo worktree remove --force %s" % wt)
    shutil.rmtree(wt, ignore_errors=True)
    shutil.rmtree(scratch, ignore_errors=True)
    rc, out = sh("git -C /repo worktree add -q --detach %s HEAD" % wt)
    assert rc == 0, out
    res = {"seed": seed}
    try:
        rc, out = sh("git -C %s apply %s/patch.diff" % (wt, d))
        if rc != 0:
            rc, out = sh("git -C %s apply -3 %s/patch.diff" % (wt, d))
            if rc != 0:
                return {"seed": seed, "error": "patch does not apply to the current head: " + out[-300:]}
        os.makedirs(scratch)
        gm = open(os.path.join(ROOT, "harness", "go.mod")).read().replace("=> /repo/v2", "=> %s/v2" % wt)
        open(os.path.join(scratch, "go.mod"), "w").write(gm)
        shutil.copyfile(os.path.join(ROOT, "harness", "go.sum"), os.path.join(scratch, "go.sum"))
        envs = "VERIF_REPO=%s VERIF_MODFILE=%s/go.mod VERIF_WORK=%s/work VERIF_EVIDENCE_DIR=%s/evidence" % (wt, scratch, scratch, scratch)
        for c in checks:
            t0 = time.time()
            rc, out = sh("cd %s && %s ./vcheck run %s %s" % (ROOT, envs, c, tier), timeout=7200)
            viol = [l for l in out.splitlines() if l.startswith("VIOLATION")]
            res[c] = {"exit": rc, "detected": rc == 1 and bool(viol), "secs": round(time.time() - t0, 1), "tail": out[-700:]}
            via = ""
            for l in viol:
                m = re.search(r"replay=(\S+)", l)
                if m:
                    via = "generated search (shrunk case kept as caught_by_%s.json)" % c if "/found_" in m.group(1) else "replay tier: " + os.path.relpath(m.group(1), ROOT)
            det = {"tier": tier, "detected": res[c]["detected"], "exit": rc, "secs": res[c]["secs"], "via": via}
            if via.startswith("replay tier"):
                # the regression tier stopped the run: does the generated search find it on its own?
                t1 = time.time()
                rc2, out2 = sh("cd %s && %s VERIF_SKIP_REPLAY=1 ./vcheck run %s %s" % (ROOT, envs, c, tier), timeout=7200)
                v2 = [l for l in out2.splitlines() if l.startswith("VIOLATION")]
                det["search_alone"] = {"detected": rc2 == 1 and bool(v2), "exit": rc2, "secs": round(time.time() - t1, 1)}
                viol += v2
            # violations found under a seeded patch are not regression cases for the real tree
            for l in viol:
                m = re.search(r"replay=(\S+)", l)
                if m and "/found_" in m.group(1) and os.path.exists(m.group(1)):
                    shutil.move(m.group(1), os.path.join(d, "caught_by_%s.json" % c))
            mp = os.path.join(d, "meta.json")
            try:
                meta = json.load(open(mp))
            except Exception:
                meta = {}
            meta.setdefault("detection", {})[c] = det
            json.dump(meta, open(mp, "w"), indent=1)
    finally:
        sh("git -C /repo worktree remove --force %s" % wt)
        shutil.rmtree(wt, ignore_errors=True)
        shutil.rmtree(scratch, ignore_errors=True)
        sh("git -C /repo worktree prune")
    return res


def main():
    a = sys.argv[1:]
    if a[0] == "verify":
        r = verify(a[1], a[2], a[3])
        print(json.dumps(r, indent=1))
    elif a[0] == "run":
        r = run(a[1], a[2:] or None)
        print(json.dumps(r, indent=1))
    elif a[0] == "runall":
        rows = []
        for d in sorted(os.listdir(SEEDED)):
            if not os.path.exists(os.path.join(SEEDED, d, "patch.diff")):
                continue
            r = run(d)
            prop = d.split("-")[0]
            rows.append((d, r.get(prop, {}).get("detected"), r.get(prop, {}).get("exit"), r.get(prop, {}).get("secs"), r.get("error", "")))
            print(rows[-1], flush=True)
        json.dump(rows, open(os.path.join(SEEDED, "LAST_RUNALL.json"), "w"), indent=1)


if __name__ == "__main__":
    main()
