#!/usr/bin/env python3
"""mkreplay.py <property> <kind> <name> '<case json>' '<what it witnesses>' -> replay/<property>/<name>.json"""
import json, os, sys
prop, kind, name, case, msg = sys.argv[1:6]
d = os.path.join(os.path.dirname(os.path.abspath(__file__)), "replay", prop)
os.makedirs(d, exist_ok=True)
json.dump({"property": prop, "kind": kind, "message": msg, "case": json.loads(case)}, open(os.path.join(d, name + ".json"), "w"), indent=1)
print(os.path.join(d, name + ".json"))
